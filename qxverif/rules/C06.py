"""C06 — SASL exchanges: a server that cannot prove itself is refused (structural clauses).

R1 server-supplied SCRAM / DIGEST-MD5 parameters are validated before any key derivation or response
R2 a non-empty result at the final step is dominated by the server-signature / rspauth comparison; no step can be replayed
R3 the managers report success only after consulting the mechanism object (completion check; success data is verified)
R4 the proof is computed from the right secrets (def-use roles of "Client Key" / "Server Key", one hash source)
"""
import re

from .. import cfgx
from ..build import AnalysisBroken

UNITS = ['base/QXmppSasl.cpp', 'client/QXmppSaslManager.cpp', 'client/QXmppConfiguration.cpp']
SCRAM = 'QXmppSaslClientScram::respond'
DIGEST = 'QXmppSaslClientDigestMd5::respond'
CRYPTO = ('QPasswordDigestor::deriveKeyPbkdf2', 'QMessageAuthenticationCode::hash', 'QCryptographicHash::hash')


def is_nullopt_return(fn, n):
    """return {} / return std::nullopt of an optional-returning function"""
    if 'e' not in n:
        return False
    e = fn.nodes[fn.skip(n['e'])]
    if e['k'] == 'initlist' and not e.get('elems'):
        return True
    if e['k'] == 'construct' and not e.get('args') and 'optional' in e.get('cls', ''):
        return True
    if e['k'] == 'var' and e.get('qname') == 'std::nullopt':
        return True
    if e['k'] == 'construct' and len(e.get('args', [])) == 1:
        a = fn.nodes[fn.skip(e['args'][0])]
        if a['k'] == 'var' and a.get('qname') == 'std::nullopt':
            return True
    return False


def step_field(fn):
    """the step counter of a SASL client: the integer member of the class that respond() increments (whatever it is called)"""
    cands = []
    for j, m in fn.all_nodes('un'):
        if m['op'] in ('post++', 'pre++'):
            t = fn.nodes[fn.skip(m['e'])]
            if t['k'] == 'mem' and (t.get('tc') or '').startswith('int'):
                cands.append(t['f'])
    for j, m in fn.all_nodes('assign'):
        t = fn.nodes[fn.skip(m['l'])]
        if t['k'] == 'mem' and (t.get('tc') or '').startswith('int') and m['op'] in ('+=', '='):
            cands.append(t['f'])
    if not cands:
        raise AnalysisBroken('C06: no step counter (integer member incremented by %s) found' % fn.qname)
    return max(set(cands), key=cands.count)


def step_binding(fn, step):
    fld = step_field(fn)

    def custom(f, nid, st):
        n = f.nodes[nid]
        if n['k'] == 'mem' and n.get('f') == fld:
            return (step,)
        return None
    return custom


def from_input(f, nid):
    """the expression is computed from the message handed to respond() (parameter 0), e.g. parse(p0).value('r')"""
    return any(f.nodes[j]['k'] == 'var' and f.nodes[j].get('pidx') == 0 for j in _walk_inl(f, nid))


def _walk_inl(f, nid, depth=0, seen=None):
    seen = set() if seen is None else seen
    for j in f.walk(nid):
        if j in seen:
            continue
        seen.add(j)
        yield j
        n = f.nodes[j]
        if n['k'] == 'var' and n.get('vk') == 'local' and depth < 5:
            d = f.single_def(n['decl'])
            if d is not None:
                yield from _walk_inl(f, d, depth + 1, seen)


def is_member(f, nid):
    n = f.nodes[f.skip(nid)]
    return n['k'] == 'mem' and f.nodes[f.skip(n['base'])]['k'] == 'this' if 'base' in n else n['k'] == 'mem'


def crypto_sinks(prog, fn):
    """calls of the key-derivation / HMAC / hash primitives in fn, and calls of same-file helpers that contain them"""
    sinks = [i for i, n in fn.calls() if fn.cname(n) in CRYPTO]
    for i, n in fn.calls():
        for g in prog.callee_fns(fn, n):
            if g.file == fn.file and g.id != fn.id and any(g.cname(m) in CRYPTO for _, m in g.calls()):
                sinks.append(i)
    return sinks


def run(prog, run):
    run.explanation = ('Refusal half of the SASL property, decided on code shape: the SCRAM and DIGEST-MD5 clients are explored per step under '
                       'abstract server inputs (nonce not extending ours, empty salt, zero iterations, wrong signature / rspauth): no key derivation, '
                       'HMAC or non-empty response is reachable; every accepting path advances the step counter; the managers may report success '
                       'only behind a check on the mechanism object, and success data flows into it. The byte-exactness of the responses is not decided.')
    run.assume('byte-level conformance with RFC 5802/2831/HT for all credentials needs an independent implementation at run time (not decided)')
    scram(prog, run)
    digest(prog, run)
    managers(prog, run)
    roles(prog, run)
    arg_chains(prog, run)
    verbatim_credentials(prog, run)
    name_tables(prog, run)


# --------------------------------------------------------------------------- SCRAM
def scram(prog, run):
    r1 = run.rule('C06.R1', 'server-first parameters are validated (nonce extends ours, salt non-empty, iterations >= 1) before any key derivation, HMAC or response', floor=3)
    r2 = run.rule('C06.R2', 'the final step yields a result only if the server signature / rspauth matches; every accepting path advances the step; unknown steps are refused', floor=6)
    fn = prog.fn(SCRAM)
    sinks = crypto_sinks(prog, fn)
    if not sinks:
        raise AnalysisBroken('C06.R1: no PBKDF2/HMAC/H call (direct or through a helper) found in %s' % SCRAM)

    # locate the three validations structurally (operands), independent of variable names
    def src_of(f, nid):
        return f.fmt(nid)

    cases = {
        'nonce does not extend the client nonce': lambda f, nid: (
            (False,) if f.nodes[nid]['k'] == 'call' and f.cname(f.nodes[nid]) == 'QByteArray::startsWith'
            and "value('r')" in src_of(f, f.nodes[nid]['obj']).replace('114', "'r'") + src_of(f, f.nodes[nid]['obj'])
            and 'm_nonce' in f.fmt(f.nodes[nid]['args'][0]) else None),
    }

    def base_custom(extra):
        def custom(f, nid, st):
            r = step_binding(f, 1)(f, nid, st)
            if r is not None:
                return r
            return extra(f, nid, st)
        return custom

    def nonce_case(f, nid, st):
        n = f.nodes[nid]
        if n['k'] == 'call' and f.cname(n) == 'QByteArray::startsWith' and n.get('obj') is not None and n.get('args'):
            # <value taken from the server message>.startsWith(<member of the client>): the nonce-extension test
            if from_input(f, n['obj']) and f.nodes[f.skip(n['args'][0])]['k'] == 'mem' and not from_input(f, n['args'][0]):
                return (False,)
        return None

    def salt_case(f, nid, st):
        n = f.nodes[nid]
        if n['k'] == 'call' and f.cname(n) == 'QByteArray::isEmpty' and n.get('obj') is not None:
            o = f.fmt(n['obj'])
            if 'QByteArray::fromBase64' in o and from_input(f, n['obj']):
                return (True,)
        return None

    def iter_case(f, nid, st):
        n = f.nodes[nid]
        if n['k'] == 'call' and f.cname(n) in ('QByteArray::toInt', 'QByteArray::toUInt', 'QByteArray::toLong', 'QByteArray::toLongLong') \
                and n.get('obj') is not None and from_input(f, n['obj']):
            return (0,)
        return None

    for label, case in (('nonce does not extend the client nonce', nonce_case), ('salt is empty', salt_case), ('iteration count is 0', iter_case)):
        run.instance(r1)
        ev = cfgx.Evaluator(fn, {}, custom=base_custom(case))
        evalc = lambda f, c, st, ev=ev: ev.ev(c, st)
        res = cfgx.sink_reachability(fn, evalc, sinks)
        reach = cfgx.reach_with_paths(fn, evalc)
        bad = [s for s in sinks if res[s] is not None]
        rets_bad = []
        for i, n in fn.returns():
            pos = fn.pos(i)
            if pos and pos[0] in reach and not is_nullopt_return(fn, n):
                rets_bad.append(i)
        key = 'QXmppSaslClientScram::respond#step1#' + label.split(' ')[0]
        if bad:
            run.violation(r1, key, fn.loc(bad[0]), 'when the %s the client still reaches %s' % (label, fn.cname(fn.nodes[bad[0]])),
                          cfgx.describe_path(fn, res[bad[0]]))
        elif rets_bad:
            run.violation(r1, key + '#responds', fn.loc(rets_bad[0]), 'when the %s the client still produces a response' % label)
        else:
            run.ok(r1, fn.loc(), 'server-first with "%s": no crypto, no response' % label)

    # ---- R2 final step
    def sig_case(f, nid, st):
        bo = f.binop(nid)
        if bo and bo[0] in ('==', '!='):
            sides = [bo[1], bo[2]]
            # <value taken from the server message> compared with <member of the client>: the server signature test
            if any(from_input(f, x) for x in sides) and any(f.nodes[f.skip(x)]['k'] == 'mem' and 'QByteArray' in (f.nodes[f.skip(x)].get('t') or '') and not from_input(f, x) for x in sides):
                return (bo[0] == '!=',)
        return None

    def custom2(f, nid, st):
        r = step_binding(f, 2)(f, nid, st)
        if r is not None:
            return r
        return sig_case(f, nid, st)
    ev = cfgx.Evaluator(fn, {}, custom=custom2)
    reach = cfgx.reach_with_paths(fn, lambda f, c, st: ev.ev(c, st))
    run.instance(r2)
    bad = [i for i, n in fn.returns() if fn.pos(i) and fn.pos(i)[0] in reach and not is_nullopt_return(fn, n)]
    has_cmp = any(sig_case(fn, i, None) for i in range(len(fn.nodes)))
    if not has_cmp:
        run.violation(r2, 'QXmppSaslClientScram::respond#final#no-signature-check', fn.loc(), 'the server signature is never compared with the stored one')
    elif bad:
        run.violation(r2, 'QXmppSaslClientScram::respond#final#accepts-wrong-signature', fn.loc(bad[0]),
                      'a server-final message with a wrong signature still yields a result', cfgx.describe_path(fn, reach[fn.pos(bad[0])[0]]))
    else:
        run.ok(r2, fn.loc(), 'SCRAM final step: wrong signature => nullopt')
    # ---- what isComplete() reports (the managers accept a <success/> without data only behind it, R3): a flag that becomes true nowhere but behind the
    # matching signature - not the step counter, which is advanced as soon as the client-final message has been produced
    r7 = run.rule('C06.R7', 'QXmppSaslClientScram::isComplete() reports a boolean member that is set to true only in the final step and only where the server signature '
                            'matched: it is what stands between an early <success/> (sent before the server proved that it knows the password) and a reported login', floor=1)
    run.instance(r7)
    ic = [g for g in prog.fns.values() if g.qname == 'QXmppSaslClientScram::isComplete' and g.entry is not None]
    if not ic:
        raise AnalysisBroken('C06.R7: QXmppSaslClientScram::isComplete has no body in the analysed units')
    rets = [ic[0].nodes[ic[0].resolve(r['e'])] for _, r in ic[0].returns() if 'e' in r]        # through a named local
    flag = rets[0].get('f') if len(rets) == 1 and rets[0]['k'] == 'mem' and (rets[0].get('t') or '').replace('const ', '') == 'bool' else None
    if flag is None:
        run.violation(r7, 'QXmppSaslClientScram::isComplete#not-the-verification-flag', ic[0].loc(),
                      'isComplete() reports %s instead of a flag set by the signature check: it can be true before the server-final message has been verified, and a bare '
                      '<success/> right after the client-final message is then taken for a login' % (ic[0].fmt(ic[0].returns().__next__()[0], inline=False)[:60] if rets else '?'))
    else:
        sets = [i for i, n in fn.all_nodes('assign') if fn.nodes[fn.skip(n['l'])].get('f') == flag and fn.const_value(n['r']) == ('bool', True)]
        others = [(g, i) for g in prog.fns.values() if g.entry is not None and g.id != fn.id and '/src/' in g.file
                  for i, n in g.all_nodes('assign') if g.nodes[g.skip(n['l'])].get('f') == flag and g.const_value(n['r']) != ('bool', False)]
        early = []
        for step in (0, 1):
            evs = cfgx.Evaluator(fn, {}, custom=step_binding(fn, step))
            rch = cfgx.reach_with_paths(fn, lambda f, c, st, evs=evs: evs.ev(c, st))
            early += [i for i in sets if fn.pos(i) and fn.pos(i)[0] in rch]
        wrong = [i for i in sets if fn.pos(i) and fn.pos(i)[0] in reach]          # reachable in step 2 with a wrong signature
        if not sets:
            run.violation(r7, 'QXmppSaslClientScram::isComplete#flag-never-set', ic[0].loc(), 'the member isComplete() reports is never set')
        elif others or early or wrong:
            site = others[0][0].loc(others[0][1]) if others else fn.loc((early or wrong)[0])
            run.violation(r7, 'QXmppSaslClientScram::isComplete#flag-set-without-verification', site,
                          'the member isComplete() reports becomes true %s' % ('outside respond()' if others else 'before the final step' if early else 'although the signature is wrong'))
        else:
            run.ok(r7, ic[0].loc(), 'isComplete() == %s, set only behind the matching server signature' % flag.split('::')[-1])
    _steps(prog, run, r2, fn, 'QXmppSaslClientScram')


def _steps(prog, run, rid, fn, cls):
    # every non-null return is preceded by an increment of the step counter; steps beyond the last are refused
    for i, n in fn.returns():
        if is_nullopt_return(fn, n):
            continue
        run.instance(rid)
        sf = step_field(fn)
        incs = [j for j, m in fn.all_nodes('un') if m['op'] in ('post++', 'pre++') and fn.nodes[fn.skip(m['e'])].get('f') == sf]
        incs += [j for j, m in fn.all_nodes('assign') if fn.nodes[fn.skip(m['l'])].get('f') == sf]
        if any(fn.node_dominates(j, i) and fn.pos(j)[0] != fn.entry or (fn.node_dominates(j, i)) for j in incs):
            run.ok(rid, fn.loc(i), '%s: accepting return preceded by m_step advance' % cls)
        else:
            run.violation(rid, '%s::respond#replayable-step' % cls, fn.loc(i), 'a step produces a response without advancing m_step (it can be replayed)')
    run.instance(rid)

    sf2 = step_field(fn)

    def big(f, nid, st):
        n = f.nodes[nid]
        if n['k'] == 'mem' and n.get('f') == sf2:
            return (99,)
        return None
    ev = cfgx.Evaluator(fn, {}, custom=big)
    reach = cfgx.reach_with_paths(fn, lambda f, c, st: ev.ev(c, st))
    bad = [i for i, n in fn.returns() if fn.pos(i) and fn.pos(i)[0] in reach and not is_nullopt_return(fn, n)]
    if bad:
        run.violation(rid, '%s::respond#unknown-step-accepted' % cls, fn.loc(bad[0]), 'a message after the exchange has completed still yields a result')
    else:
        run.ok(rid, fn.loc(), '%s: messages beyond the last step are refused' % cls)


# --------------------------------------------------------------------------- DIGEST-MD5
def digest(prog, run):
    r1 = run.rule('C06.R1', 'x')
    r2 = run.rule('C06.R2', 'x')
    fn = prog.fn(DIGEST)

    def nononce(f, nid, st):
        r = step_binding(f, 1)(f, nid, st)
        if r is not None:
            return r
        n = f.nodes[nid]
        if n['k'] == 'call' and f.cname(n).endswith('::contains') and n.get('args') and f.strval(n['args'][0]) == 'nonce':
            return (False,)
        return None

    def noauth(f, nid, st):
        r = step_binding(f, 1)(f, nid, st)
        if r is not None:
            return r
        n = f.nodes[nid]
        if n['k'] == 'call' and f.cname(n).endswith('::contains') and n.get('args') and f.strval(n['args'][0]) == 'auth':
            return (False,)
        if n['k'] == 'call' and f.cname(n).endswith('::contains') and n.get('args') and f.strval(n['args'][0]) == 'nonce':
            return (True,)
        return None
    for label, case in (('challenge has no nonce', nononce), ('qop does not offer auth', noauth)):
        run.instance(r1)
        ev = cfgx.Evaluator(fn, {}, custom=case)
        reach = cfgx.reach_with_paths(fn, lambda f, c, st, ev=ev: ev.ev(c, st))
        bad = [i for i, n in fn.returns() if fn.pos(i) and fn.pos(i)[0] in reach and not is_nullopt_return(fn, n)]
        digests = [i for i, n in fn.calls() if fn.cname(n).endswith('calculateDigest') and fn.pos(i) and fn.pos(i)[0] in reach
                   and any(isinstance(p, bool) for c, p in fn.atomic_assertions_at(i))]
        sfd = step_field(fn).split('::')[-1]
        step1_digests = [i for i in digests if any(fn.fmt(c).find('%s == 1' % sfd) >= 0 and p is True for c, p in fn.atomic_assertions_at(i))]
        if bad or step1_digests:
            site = fn.loc((bad or step1_digests)[0])
            run.violation(r1, 'QXmppSaslClientDigestMd5::respond#step1#' + label.replace(' ', '-'), site,
                          'when the %s the client still computes/sends a response' % label)
        else:
            run.ok(r1, fn.loc(), 'DIGEST-MD5 challenge where the %s: refused' % label)

    def rsp(f, nid, st):
        r = step_binding(f, 2)(f, nid, st)
        if r is not None:
            return r
        bo = f.binop(nid)
        if bo and bo[0] in ('==', '!='):
            t = f.fmt(nid)
            if '"rspauth"' in t and 'calculateDigest' in t:
                return (bo[0] == '!=',)
        return None
    run.instance(r2)
    ev = cfgx.Evaluator(fn, {}, custom=rsp)
    reach = cfgx.reach_with_paths(fn, lambda f, c, st: ev.ev(c, st))
    bad = [i for i, n in fn.returns() if fn.pos(i) and fn.pos(i)[0] in reach and not is_nullopt_return(fn, n)]
    has = any(rsp(fn, i, None) is not None and fn.binop(i) for i in range(len(fn.nodes)) if fn.nodes[i]['k'] != 'mem')
    if not has:
        run.violation(r2, 'QXmppSaslClientDigestMd5::respond#final#no-rspauth-check', fn.loc(), 'rspauth is never compared with the expected digest')
    elif bad:
        run.violation(r2, 'QXmppSaslClientDigestMd5::respond#final#accepts-wrong-rspauth', fn.loc(bad[0]), 'a wrong rspauth still yields a result')
    else:
        run.ok(r2, fn.loc(), 'DIGEST-MD5 final step: wrong rspauth => nullopt')
    _steps(prog, run, r2, fn, 'QXmppSaslClientDigestMd5')


# --------------------------------------------------------------------------- managers
def _completes_promise(g):
    return any(g.cname(m).endswith('::finish') and 'QXmppPromise' in g.cname(m) for _, m in g.calls())


def _is_finish_call(prog, f, n):
    """the call completes the pending authentication promise: promise.finish(..), the local `finish` lambda, a local lambda under another name or a
    member helper (also a member template: its instantiations are resolved) whose body completes a QXmppPromise"""
    if (n.get('op') == '()' and n.get('opargs') and f.nodes[f.skip(n['opargs'][0])].get('name') == 'finish') or f.cname(n).endswith('::finish'):
        return True
    if n.get('op') == '()' and n.get('opargs'):
        tgt = f.nodes[f.resolve(n['opargs'][0])]
        return tgt['k'] == 'lambda' and any(_completes_promise(l) for l in prog.lambda_fns(f, tgt))
    if not n.get('op'):
        return any(_completes_promise(g) for g in prog.callee_fns(f, n) if g.entry is not None and len(g.nodes) < 200)
    return False


def managers(prog, run):
    r3 = run.rule('C06.R3', 'a manager reports success only behind a check on the mechanism object (the exchange completed / the server was verified); '
                            'data carried by <success/> is handed to the mechanism', floor=4)
    for qn, client_field, ns in (('QXmpp::Private::SaslManager::handleElement', 'm_saslClient', 'Sasl'),
                                 ('QXmpp::Private::Sasl2Manager::handleElement', 'sasl', 'Sasl2')):
        fn = prog.fn(qn)
        fns = prog.closure(fn)
        # success completions: calls of the local finish lambda / promise.finish with a Success value
        succ_sites = []
        def carries_success(nid):
            for j in fn.walk(nid):
                m = fn.nodes[j]
                t = (m.get('t') or '') + ' ' + (m.get('cls') or '')
                if m['k'] in ('call', 'construct') and (t.strip().endswith('::Success') or ' QXmpp::Success' in ' ' + t
                                                        or t.strip().endswith('Sasl2::Success') or m.get('cls') == 'QXmpp::Success'):
                    return True
                if m['k'] == 'call' and m.get('op') == '*' and 'Success' in (m.get('t') or ''):
                    return True
            return False
        for i, n in fn.calls():
            args = n.get('opargs', [None])[1:] if n.get('op') == '()' else n.get('args', [])
            is_finish = _is_finish_call(prog, fn, n)
            if is_finish and any(a is not None and carries_success(a) for a in args):
                succ_sites.append(i)
        if not succ_sites:
            raise AnalysisBroken('C06.R3: success completion not found in %s' % qn)
        def hostile(data_present, respond_ok, complete):
            def custom(f, nid, st):
                n = f.nodes[nid]
                if n['k'] != 'call':
                    return None
                sy = f.sym(n)
                name = sy['name'] if sy else ''
                objtxt = f.fmt(n['obj'], inline=True) if n.get('obj') is not None else ''
                if name == 'isComplete' and sy.get('record') == 'QXmppSaslClient' and client_field in f.fmt(n['obj'], inline=False):
                    return (complete,) if complete is not None else None
                if name in ('operator bool', 'has_value', 'isEmpty', 'isNull'):
                    if 'QXmppSaslClient::respond(' in objtxt:
                        if respond_ok is None:
                            return None
                        return (respond_ok if name in ('operator bool', 'has_value') else (not respond_ok),)
                    if 'additionalData' in objtxt:
                        return (data_present if name in ('operator bool', 'has_value') else (not data_present),)
                return None
            ev = cfgx.Evaluator(fn, {}, custom=custom)
            evs.append(ev)
            return lambda f, c, st: ev.ev(c, st)
        evs = []

        cases = (('no data and the mechanism has not verified the server (early <success/>)', hostile(False, None, False)),
                 ('data that the mechanism rejects (wrong server signature)', hostile(True, False, None)),
                 ('data the mechanism accepts as an intermediate step without having completed (the server signature is still outstanding)', hostile(True, True, False)))
        for k, (label, evc) in enumerate(cases):
            run.instance(r3)
            res = cfgx.sink_reachability(fn, evc, succ_sites, track=evs[k])
            bad = [x for x in succ_sites if res[x] is not None]
            if bad:
                which = 'success-without-mechanism-check' if label.startswith('no data') else 'success-data-not-verified' if 'rejects' in label else 'success-mechanism-incomplete'
                run.violation(r3, '%s#%s' % (qn, which), fn.loc(bad[0]),
                              'authentication is reported successful for a <success/> carrying %s: the server never proved knowledge of the password'
                              % label, cfgx.describe_path(fn, res[bad[0]]))
            else:
                run.ok(r3, fn.loc(succ_sites[0]), '%s: <success/> with %s is refused' % (qn.split('::')[-2], label))
        # a challenge the mechanism rejects ends the exchange: the task is finished with an error and the manager is done
        run.instance(r3)

        def rej_custom(f, nid, st):
            n = f.nodes[nid]
            if n['k'] != 'call':
                return None
            sy = f.sym(n) or {}
            objtxt = f.fmt(n['obj'], inline=True) if n.get('obj') is not None else ''
            if sy.get('name') in ('operator bool', 'has_value'):
                if 'QXmppSaslClient::respond(' in objtxt:
                    return (False,)
                if 'Challenge::fromDom' in objtxt:
                    return (True,)
                if 'Success::fromDom' in objtxt or 'Failure::fromDom' in objtxt or 'Continue::fromDom' in objtxt:
                    return (False,)
                if client_field in objtxt or 'm_promise' in objtxt or 'm_state' in objtxt:
                    return (True,)
            return None
        rev = cfgx.Evaluator(fn, {}, custom=rej_custom)

        def rej_transfer(f, nid, st):
            n = f.nodes[nid]
            if n['k'] == 'call':
                is_finish = _is_finish_call(prog, f, n)
                if is_finish:
                    return st + ('finish',)
            if n['k'] == 'ret' and 'e' in n:
                v = f.const_value(n['e'])
                return st + (('ret', v[1].split('::')[-1] if v else '?'),)
            return None
        rexits, _ = cfgx.explore(fn, (), rej_transfer, lambda f, c, st: rev.ev(c, st))
        badr = [st for st in rexits if ('ret', 'Accepted') in st or (('finish' not in st) and any(isinstance(x, tuple) and x[0] == 'ret' and x[1] != 'Rejected' for x in st))]
        if badr:
            run.violation(r3, '%s#rejected-challenge-continues' % qn, fn.loc(),
                          'a challenge the mechanism rejects (e.g. a wrong rspauth / server signature in a challenge) does not end the exchange: the manager keeps '
                          'listening and a later <success/> is judged without the verification that already failed')
        else:
            run.ok(r3, fn.loc(), '%s: a rejected challenge finishes the task with an error' % qn.split('::')[-2])
        # sanity: an honest completion is accepted
        res = cfgx.sink_reachability(fn, hostile(True, True, True), succ_sites)
        if not any(res[x] is not None for x in succ_sites):
            raise AnalysisBroken('C06.R3: success unreachable even for a verified server in %s (model does not fit the code)' % qn)


# --------------------------------------------------------------------------- roles
def _helpers_called(prog, fn):
    """(call node id, callee Fn) for calls of free/static helper functions defined in the same file"""
    out = []
    for i, n in fn.calls():
        for g in prog.callee_fns(fn, n):
            if g.file == fn.file and g.id != fn.id and not g.is_lambda and g.entry is not None:
                out.append((i, g))
    return out


def _subst(text, argtexts):
    return re.sub(r'\bp(\d+)\b', lambda m: '(' + argtexts[int(m.group(1))] + ')' if int(m.group(1)) < len(argtexts) else m.group(0), text)


def expand(prog, f, nid, depth=0):
    """canonical text of a value with same-file helper calls looked through: helper(args) -> its returned expression with the parameters replaced,
    helper(args).field -> the matching element of the returned aggregate"""
    nid = f.resolve(nid) if hasattr(f, 'resolve') else nid
    n = f.nodes[f.skip(nid)]
    if depth < 3:
        call = None
        field = None
        if n['k'] == 'mem' and n.get('base') is not None:
            b = f.nodes[f.resolve(n['base'])]
            if b['k'] == 'call':
                call, field = b, n.get('name')
        elif n['k'] == 'call':
            call = n
        if call is not None:
            for g in prog.callee_fns(f, call):
                if g.file != f.file or g.is_lambda or g.entry is None:
                    continue
                rets = [r for _, r in g.returns() if 'e' in r]
                if len(rets) != 1:
                    continue
                e = g.nodes[g.skip(rets[0]['e'])]
                target = rets[0]['e']
                if field is not None:
                    items = e.get('elems') or e.get('args') or []
                    rec = None
                    for rq in (g.raw.get('ret') or '', (prog.fns[g.id].sym_ret if hasattr(prog.fns[g.id], 'sym_ret') else '')):
                        pass
                    # field order from the record facts
                    recs = [r for r in prog.records.values() if any(fl['name'] == field for fl in r['fields'])] if hasattr(prog, 'records') else []
                    idx = None
                    for r in recs:
                        names = [fl['name'] for fl in r['fields']]
                        if len(names) == len(items):
                            idx = names.index(field)
                    if idx is None or idx >= len(items):
                        continue
                    target = items[idx]
                argtexts = [expand(prog, f, a, depth + 1) for a in call.get('args', [])]
                return _subst(expand(prog, g, target, depth + 1), argtexts)
    return f.fmt(nid, inline=True)


def roles(prog, run):
    r4 = run.rule('C06.R4', 'the client proof derives from "Client Key" and the stored server signature from "Server Key", both from the PBKDF2 of the '
                            'password with the server\'s salt and iteration count, using one hash algorithm source', floor=4)
    fn = prog.fn(SCRAM)
    helpers = _helpers_called(prog, fn)
    # labelled HMACs in respond() or in a same-file helper it calls; their key argument expanded into respond()'s terms
    keys = {}
    scopes = [(fn, None)] + [(g, i) for i, g in helpers]
    for g, site in scopes:
        for i, n in g.calls('QMessageAuthenticationCode::hash'):
            lit = g.strval(n['args'][0])
            if lit in ('Client Key', 'Server Key'):
                t = g.fmt(n['args'][1], inline=True)
                if site is not None:
                    t = _subst(t, [expand(prog, fn, a) for a in fn.nodes[site].get('args', [])])
                keys[lit] = (g, i, t)
    run.instance(r4)
    if set(keys) != {'Client Key', 'Server Key'}:
        run.violation(r4, 'QXmppSaslClientScram::respond#key-labels', fn.loc(), 'HMAC labels "Client Key"/"Server Key" not both present: %s' % sorted(keys))
        return
    run.ok(r4, fn.loc(), 'both RFC 5802 key labels present')
    # salted password source: PBKDF2 over a member (the password) with salt and iteration count taken from the server message
    run.instance(r4)
    okp = True
    for lab, (g, i, key_arg) in keys.items():
        if 'QPasswordDigestor::deriveKeyPbkdf2' not in key_arg or 'this.' not in key_arg or 'p0' not in key_arg or 'fromBase64' not in key_arg:
            okp = False
    # the password argument of PBKDF2 is a QString member converted to bytes, not something from the wire or a cache
    for g, site in scopes:
        for i, n in g.calls('QPasswordDigestor::deriveKeyPbkdf2'):
            pw = g.nodes[g.resolve(n['args'][1])] if len(n['args']) > 1 else None
            pwt = g.fmt(n['args'][1], inline=True) if len(n['args']) > 1 else ''
            if site is None and not (pwt.startswith('this.') and 'p0' not in pwt):
                okp = False
    if okp and len(set(k[2] for k in keys.values())) == 1:
        run.ok(r4, fn.loc(), 'both keys are HMACs keyed by PBKDF2(password, server salt, server iterations)')
    else:
        run.violation(r4, 'QXmppSaslClientScram::respond#salted-password', fn.loc(), 'a key is not derived from PBKDF2(password, salt, iterations)')
    # roles: the member compared with the server's final message holds the Server Key signature; the response carries the Client Key proof
    run.instance(r4)
    sig_members = set()
    for i in range(len(fn.nodes)):
        bo = fn.binop(i)
        if bo and bo[0] in ('==', '!='):
            for x, y in ((bo[1], bo[2]), (bo[2], bo[1])):
                xn = fn.nodes[fn.skip(x)]
                if xn['k'] == 'mem' and 'QByteArray' in (xn.get('t') or '') and from_input(fn, y):
                    sig_members.add(xn['f'])
    sig_ok = False
    for i, n in fn.all_nodes('assign'):
        l = fn.nodes[fn.skip(n['l'])]
        if l.get('f') in sig_members:
            t = expand(prog, fn, n['r'])
            sig_ok = '"Server Key"' in t and '"Client Key"' not in t
    proof_ok = False
    for i, n in fn.returns():
        if 'e' in n and not is_nullopt_return(fn, n):
            consumed = set()
            parts = []
            for j in fn.walk(n['e']):
                if j in consumed:
                    continue
                m = fn.nodes[j]
                if m['k'] == 'mem' and m.get('base') is not None:
                    parts.append(expand(prog, fn, j))
                    consumed |= set(fn.walk(m['base']))       # a field access stands for that field only, not for the whole aggregate
                elif m['k'] == 'var':
                    parts.append(expand(prog, fn, j))
            t = ' '.join(parts)
            if '"Client Key"' in t:
                proof_ok = '"Server Key"' not in t
    if sig_ok and proof_ok:
        run.ok(r4, fn.loc(), 'proof <- Client Key, stored signature <- Server Key')
    else:
        run.violation(r4, 'QXmppSaslClientScram::respond#key-roles', fn.loc(),
                      'key roles mixed up (signature from Server Key: %s, proof from Client Key: %s)' % (sig_ok, proof_ok))
    # one algorithm source
    run.instance(r4)
    algs = set()
    for g, site in scopes:
        for i, n in g.calls():
            if g.cname(n) in CRYPTO:
                for k_, a in enumerate(n.get('args', [])):
                    an = g.nodes[g.resolve(a)]
                    if (an['k'] == 'call' and g.cname(an).endswith('qtAlgorithm')) or (an['k'] == 'enum' and an.get('name', '').startswith('QCryptographicHash::')) \
                            or (an['k'] in ('var', 'mem', 'call') and an.get('t', '').replace('const ', '').strip() == 'QCryptographicHash::Algorithm'):
                        t = g.fmt(a)
                        if site is not None:
                            t = _subst(t, [expand(prog, fn, x) for x in fn.nodes[site].get('args', [])])
                            if t.startswith('(') and t.endswith(')') and t.count('(') == t.count(')'):
                                t = t[1:-1]
                        algs.add(t)
    if len(algs) == 1 and 'qtAlgorithm' in list(algs)[0]:
        run.ok(r4, fn.loc(), 'every hash/HMAC/PBKDF2 uses m_mechanism.qtAlgorithm()')
    else:
        run.violation(r4, 'QXmppSaslClientScram::respond#hash-source', fn.loc(), 'more than one hash algorithm source in the SCRAM computation: %s' % sorted(algs))


# --------------------------------------------------------------------------- R5
def _chained_args(f):
    """QString::arg calls whose format string is the result of another arg() that substituted run-time text: the inserted text is scanned again, so a
    "%2" inside the first value is replaced by the second"""
    out = []
    for i, n in f.calls('QString::arg'):
        if n.get('obj') is None:
            continue
        inner = f.nodes[f.skip(n['obj'])]
        if inner['k'] != 'call' or f.cname(inner) != 'QString::arg':
            continue
        real = [a for a in inner.get('args', []) if f.nodes[a]['k'] != 'defarg']
        if not real:
            continue
        a0 = f.nodes[f.skip(real[0])]
        t = (f.nodes[real[0]].get('t') or a0.get('t') or '')
        stringish = any(x in t for x in ('QString', 'QStringView', 'QLatin1String', 'QByteArray', 'char')) or a0['k'] in ('call', 'mem', 'var') and not any(
            x in t for x in ('int', 'long', 'short', 'double', 'float', 'bool', 'qint', 'quint', 'size_t'))
        if a0['k'] in ('str', 'int', 'char'):
            continue
        if stringish:
            out.append((i, f.fmt(real[0])[:50]))
    return out


def arg_chains(prog, run):
    import os
    from .. import build, facts
    rid = run.rule('C06.R5', 'no text that enters a SASL response or hash is assembled with chained QString::arg(): a user name, realm, nonce or password containing "%N" would be '
                             'rewritten by the following substitution (one multi-argument arg() is fine)', floor=1)
    cpath = os.path.join(build.VERIF, 'controls', 'c06_controls.cpp')
    cprog = facts.Program(build.extract_control(cpath, like_unit='base/QXmppSasl.cpp'))
    got = {g.name for g in cprog.fns.values() if _chained_args(g)}
    if 'chained_arg' not in got or 'safe_multi_arg' in got:
        raise AnalysisBroken('C06.R5: positive control not recognised (reported: %s)' % sorted(got))
    n = bad = 0
    for f in prog.fns.values():
        if not f.file.endswith(('QXmppSasl.cpp', 'QXmppSaslManager.cpp')) or f.raw.get('dependent'):
            continue
        n += 1
        for i, what in _chained_args(f):
            bad += 1
            run.instance(rid)
            run.violation(rid, '%s#chained-arg' % f.outer_name(), f.loc(i),
                          '%s builds protocol text with chained arg(): the value substituted first (%s) is scanned again by the next arg(), so a "%%2"/"%%3" in it is '
                          'replaced - the hashed / transmitted string is not the one the RFC prescribes for such credentials' % (f.display()[:50], what))
    if bad:
        return
    run.instance(rid)
    run.ok(rid, 'src/base/QXmppSasl.cpp', 'no chained arg() over run-time text in %d SASL functions (control in controls/c06_controls.cpp is reported)' % n)


# --------------------------------------------------------------------------- R6: configured credentials reach the mechanism verbatim
_SPLITTERS = ('QXmppUtils::jidToUser', 'QXmppUtils::jidToDomain', 'QXmppUtils::jidToResource', 'QXmppUtils::jidToBareJid', 'std::move', 'std::forward', 'std::as_const')


def _returned_field(g):
    """the member a plain getter returns"""
    fs = set()
    for r, n in g.returns():
        if 'e' not in n:
            return None
        m = g.nodes[g.skip(n['e'])]
        if m['k'] != 'mem':
            return None
        fs.add(m['f'])
    return fs.pop() if len(fs) == 1 else None


def verbatim_credentials(prog, run):
    rid = run.rule('C06.R6', 'the user name, host and secrets the mechanisms compute their responses from are the configured ones, byte for byte: every write of the configuration members '
                             'that are handed to the SASL client (setUsername / setHost / setCredentials) stores its argument, or a part split off it, without any conversion '
                             '(no case folding, trimming, normalisation)', floor=4)
    # the configuration members handed to the mechanism
    fields = {}
    for f in prog.fns.values():
        if f.entry is None or not f.file.endswith('QXmppSaslManager.cpp'):
            continue
        for i, n in f.calls():
            s = f.sym(n) or {}
            if s.get('record') != 'QXmppSaslClient' or not (s.get('name') or '').startswith('set') or not n.get('args'):
                continue
            for j in f.walk(n['args'][0]):
                m = f.nodes[j]
                if m['k'] == 'call' and (f.sym(m) or {}).get('record') == 'QXmppConfiguration':
                    for g in prog.callee_fns(f, m):
                        fld = _returned_field(g) if g.entry is not None else None
                        if fld:
                            fields[fld] = '%s(config.%s())' % (s['name'], g.name)
                        elif g.entry is not None and 'Credentials' in (g.raw.get('ret') or (f.sym(m) or {}).get('ret') or ''):
                            rec = prog.record('QXmpp::Private::Credentials', required=False)
                            for fl in (rec or {}).get('fields', []):
                                if 'QString' in (fl.get('t') or ''):
                                    fields[fl.get('qname') or 'QXmpp::Private::Credentials::' + fl['name']] = '%s(config.%s().%s)' % (s['name'], g.name, fl['name'])
    if len(fields) < 3:
        raise AnalysisBroken('C06.R6: configuration members handed to the SASL client not found (%s)' % sorted(fields))
    run.extra['credential_members'] = fields
    nw = 0
    for f in prog.fns.values():
        if f.entry is None or '/src/client/' not in f.file and '/src/base/' not in f.file:
            continue
        sites = [(i, n['l'], n['r']) for i, n in f.all_nodes('assign') if n.get('op') == '='] + \
                [(i, n['opargs'][0], n['opargs'][1]) for i, n in f.calls() if n.get('op') == '=' and len(n.get('opargs', [])) == 2]
        for i, l, r in sites:
            ln = f.nodes[f.skip(l)]
            if ln['k'] != 'mem' or ln.get('f') not in fields:
                continue
            nw += 1
            run.instance(rid)
            conv = None
            for j in f.walk(r):
                m = f.nodes[j]
                if m['k'] == 'call' and not m.get('op') and f.cname(m) not in _SPLITTERS:
                    conv = j
                    break
                if m['k'] == 'call' and m.get('op') in ('+', '+='):
                    conv = j
                    break
            if conv is not None:
                run.violation(rid, '%s#converted:%s' % (f.outer_name(), ln['name']), f.loc(i),
                              '%s stores %s after a conversion (%s); this member is what the mechanism gets through %s, so responses, hashes and the authentication identity are '
                              'computed for other bytes than the configured ones' % (f.display()[:50], ln['name'], f.fmt(conv, inline=False)[:60], fields[ln['f']]))
            else:
                run.ok(rid, f.loc(i), '%s stored verbatim (%s)' % (ln['name'], f.fmt(r)[:50]))
    if nw < 4:
        raise AnalysisBroken('C06.R6: only %d writes of the credential members found' % nw)


# --------------------------------------------------------------------------- R8: name table and enum agree index by index
def name_tables(prog, run):
    rid = run.rule('C06.R8', 'a table of wire names that is indexed by an enumeration lists, at every index, the name of the enumerator with that value: the hash a token mechanism '
                             'announces (HT-<name>-...) is then the hash that is computed (two entries exchanged relative to the enum make the client announce one algorithm and use '
                             'the other)', floor=1)

    def norm(x):
        return re.sub(r'[^a-z0-9]', '', x.lower())
    n = 0
    for key, t in prog.tables.items():
        if not t.get('file', '').endswith('QXmppSasl.cpp') or not t.get('strs'):
            continue
        for q, en in prog.enums.items():
            names = [e_['name'] for e_ in sorted(en['enumerators'], key=lambda e_: e_['v'])]
            vals = [e_['v'] for e_ in sorted(en['enumerators'], key=lambda e_: e_['v'])]
            if len(names) != len(t['strs']) or vals != list(range(len(names))):
                continue
            nn, ts = [norm(x) for x in names], [norm(x) for x in t['strs']]
            if sorted(nn) != sorted(ts):
                continue            # not a table of this enum's names
            n += 1
            run.instance(rid)
            off = [k for k in range(len(nn)) if nn[k] != ts[k]]
            if off:
                k = off[0]
                run.violation(rid, '%s#index-mismatch' % t['name'], '%s:%s' % (t['file'].replace(build_repo() + '/', ''), t.get('line', '')),
                              'entry %d of %s is "%s" but the enumerator with value %d of %s is %s (%d entries are off): a value converted through the table denotes another '
                              'algorithm than the one its name says' % (k, t['name'], t['strs'][k], k, q.split('::')[-1], names[k], len(off)))
            else:
                run.ok(rid, '%s:%s' % (t['file'].replace(build_repo() + '/', ''), t.get('line', '')), '%s agrees with %s at all %d indices' % (t['name'], q.split('::')[-1], len(nn)))
    if not n:
        raise AnalysisBroken('C06.R8: no name table of an enumeration found in QXmppSasl.cpp (ianaHashAlgorithms expected)')


def build_repo():
    from .. import build
    return build.REPO
