"""C18 — automatic trust: only an authenticated key's holder can move trust, within scope (structural clauses)."""
from .. import cfgx
from ..build import AnalysisBroken
from ..effects import top_function
from . import C07

UNITS = ['client/QXmppAtmManager.cpp', 'client/QXmppTrustManager.cpp', 'client/QXmppAtmTrustMemoryStorage.cpp']
ATM = 'QXmppAtmManager'


def _loop_range_of(f, nid):
    """if the expression is the loop variable of a range-for: the text of the range"""
    n = f.nodes[f.skip(nid)]
    if n['k'] != 'var':
        return None
    for b in f.blocks.values():
        t = b.get('term')
        if t and t.get('k') == 'rangefor' and t.get('loopvar') == n.get('decl') and 'range' in t:
            return f.fmt(t['range'])
    return None


def _lambda_chain(prog, fn):
    return prog.lambdas_in(fn)


def run(prog, run):
    run.explanation = ('The decision code of the trust-message handler is evaluated for all eight combinations of (sender is own account, sender is the key '
                       'owner, sender key authenticated): decisions are recorded only for a qualified sender, applied only if its key is authenticated and '
                       'postponed otherwise; the operands of those three tests are checked to be the sender\'s bare JID, the own bare JID / the key owner\'s JID '
                       'and the trust level delivered for (encryption, sender, sender key). The call structure around authenticate / setTrustLevel(Authenticated) '
                       'is closed, postponed decisions are fired only by authenticate with the just-authenticated keys and removed before they are applied, '
                       'distrust discards them, and the TOAKAFA arm only touches automatically trusted keys.')
    run.assume('conformance with the XEP-0450 reference model over all histories and the storage back-ends\' correctness are not decided')
    hm = prog.fn(ATM + '::handleMessage')
    r1(prog, run, hm)
    r2(prog, run)
    r3(prog, run)
    r4(prog, run)
    r5(prog, run)
    r6(prog, run)
    r7(prog, run)


def r1(prog, run, hm):
    rid = run.rule('C18.R1', 'trust-message decisions: recorded only for a qualified sender (own account, or owner of the keys), applied only when the sender\'s '
                             'key is authenticated, postponed otherwise; own-device reflections and non-ATM elements are ignored', floor=11)
    lams = prog.lambdas_in(hm, recursive=False)
    # roles instead of names: the sender is the local holding the bare JID of message.from(); the two decision sets are what the continuation hands to
    # makeTrustDecisions(encryption, <authenticate>, <distrust>); the postponed list is the local list of key owners
    tl0 = [n for _, n in hm.calls() if hm.cname(n).endswith('::trustLevel') and len(n.get('args', [])) >= 3]
    sender = []
    if tl0:
        sv = hm.nodes[hm.skip(tl0[0]['args'][1])]
        sender = [d for _, n in hm.all_nodes('decl') for d in n['decls'] if sv['k'] == 'var' and d.get('var') == sv.get('decl')]
    if len(sender) != 1:
        raise AnalysisBroken('C18.R1: the local holding the JID of the sender (second argument of trustLevel()) not found in handleMessage')
    sender_decl, sender_name = sender[0]['var'], sender[0]['name']
    sender_is_bare_from = sender[0].get('init') is not None and hm.fmt(sender[0]['init']) == 'QXmppUtils::jidToBareJid(p0.QXmppStanza::from())'
    cont = None
    sets = {}
    decide_call = None
    for l in prog.lambdas_in(hm):
        for i, n in l.calls(ATM + '::makeTrustDecisions'):
            if len(n.get('args', [])) == 3:
                a, b = (l.nodes[l.skip(x)] for x in n['args'][1:3])
                if a['k'] == 'var' and b['k'] == 'var':
                    # the continuation is the lambda that owns the two sets (the call itself may sit in a nested continuation that captured them)
                    for c in prog.lambdas_in(hm):
                        if any(d.get('var') == a['decl'] for _, dn in c.all_nodes('decl') for d in dn['decls']):
                            cont = c
                            sets = {a['decl']: 'apply:authenticate', b['decl']: 'apply:distrust'}
                            decide_call = i if c.id == l.id else None
    if cont is None:
        raise AnalysisBroken('C18.R1: decision continuation not found in handleMessage')

    def same_file_callee(n):
        return [g for g in prog.callee_fns(cont, n) if g.entry is not None and g.file == cont.file and not g.qname.startswith(ATM + '::')]
    sinks = {}
    sources = {}
    for i, n in cont.calls():
        if i == decide_call:
            continue
        name = (cont.sym(n) or {}).get('name')
        o = n.get('obj')
        on = cont.nodes[cont.skip(o)] if o is not None else {}
        if on.get('k') == 'var' and on.get('decl') in sets and name == 'insert':
            sinks[i] = sets[on['decl']]
            loop = _loop_range_of(cont, n['args'][-1])
            sources[i] = loop or cont.fmt(n['args'][-1])
        elif on.get('k') == 'var' and 'QXmppTrustMessageKeyOwner' in (on.get('t') or '') and name in ('append', 'push_back', 'operator<<', 'prepend'):
            sinks[i] = 'postpone'
        elif not n.get('op') and same_file_callee(n):
            for a in n.get('args', []):
                an = cont.nodes[cont.skip(a)]
                if an['k'] == 'var' and an.get('decl') in sets:
                    sinks[i] = sets[an['decl']]
                    sources[i] = ' '.join(cont.fmt(x) for x in n['args'] if x != a)
                elif an['k'] == 'var' and an.get('vk') == 'local' and 'QList<QXmppTrustMessageKeyOwner>' in (an.get('t') or '').replace('const ', ''):
                    sinks[i] = 'postpone'
    if sorted(set(sinks.values())) != ['apply:authenticate', 'apply:distrust', 'postpone']:
        raise AnalysisBroken('C18.R1: expected two apply sets and one postponed list, found %s' % sorted(sinks.values()))
    # what goes into which set
    run.instance(rid)
    wrong = [(i, sinks[i], sources[i]) for i in sources
             if ('QXmppTrustMessageKeyOwner::trustedKeys()' in sources[i]) != (sinks[i] == 'apply:authenticate')
             or ('QXmppTrustMessageKeyOwner::distrustedKeys()' in sources[i]) != (sinks[i] == 'apply:distrust')]
    if wrong:
        i, what, src = wrong[0]
        run.violation(rid, 'handleMessage#key-source#' + what.split(':')[1], cont.loc(i),
                      'the set handed to makeTrustDecisions as keys to %s is filled from %s' % (what.split(':')[1], src[:80]))
    else:
        run.ok(rid, cont.loc(), 'keys to authenticate come from trustedKeys(), keys to distrust from distrustedKeys()')

    def is_sender(f, nid):
        n = f.nodes[f.skip(nid)]
        return (n['k'] == 'var' and n.get('decl') == sender_decl and (n.get('outer') or f.id == hm.id)) or (f.id not in (cont.id, hm.id) and f.fmt(nid) == sender_name)

    def classify_cmp(f, nid):
        bo = f.binop(nid)
        if not bo or bo[0] not in ('==', '!='):
            return None
        for x, y in ((bo[1], bo[2]), (bo[2], bo[1])):
            if is_sender(f, x):
                other = f.fmt(y)
                if 'QXmppConfiguration::jidBare()' in other:
                    return 'own', bo[0]
                if 'QXmppTrustMessageKeyOwner::jid()' in other:
                    return 'owner', bo[0]
        sides = (f.fmt(bo[1]), f.fmt(bo[2]))
        if f.id == cont.id and any(x == 'p0' for x in sides) and any('QXmpp::TrustLevel::Authenticated' == x for x in sides):
            return 'auth', bo[0]
        return None
    # which of the three tests the decisions depend on (looked for in the continuation and in the predicates it calls)
    kinds = set()

    def recording(f, nid, st):
        c = classify_cmp(f, nid)
        if c:
            kinds.add(c[0])
        return None
    rec = cfgx.Evaluator(cont, {}, custom=recording)
    for b in cont.blocks.values():
        t = b.get('term')
        if t and 'cond' in t:
            rec.ev(t['cond'], None)
    if kinds != {'own', 'owner', 'auth'}:
        run.instance(rid)
        run.violation(rid, 'handleMessage#decision-operands', cont.loc(),
                      'the sender-scope / sender-key tests no longer compare (sender bare JID, own bare JID), (sender bare JID, key owner JID) and '
                      '(delivered trust level, Authenticated): found %s' % sorted(kinds))
        return
    # the sender-key trust level is a finite domain: the decision code is evaluated once per level (Authenticated is the only one that applies; for every other
    # level - distrusted ones included - a qualified sender's decisions are held back, not dropped)
    levels = [e['name'] for e in prog.enum('QXmpp::TrustLevel')['enumerators']]
    if 'Authenticated' not in levels:
        raise AnalysisBroken('C18.R1: QXmpp::TrustLevel::Authenticated not found')
    for own in (True, False):
        for owner in (True, False):
            for level in levels:
                auth = level == 'Authenticated'
                run.instance(rid)
                vals = {'own': own, 'owner': owner, 'auth': auth}

                def custom(f, nid, st, vals=vals, level=level):
                    n = f.nodes[nid]
                    if f.id == cont.id and n['k'] == 'var' and n.get('vk') == 'param' and n.get('pidx') == 0:
                        return (('enum', 'QXmpp::TrustLevel::' + level),)
                    c = classify_cmp(f, nid)
                    if c:
                        return ((c[1] == '==') == vals[c[0]],)
                    return None
                ev = cfgx.Evaluator(cont, {}, custom=custom)
                res = cfgx.sink_reachability(cont, lambda f, c, st: ev.ev(c, st), list(sinks))
                reach = {sinks[i] for i in sinks if res[i] is not None}
                qualified = own or owner
                want = set()
                if qualified and auth:
                    want = {'apply:authenticate', 'apply:distrust'}
                elif qualified:
                    want = {'postpone'}
                site = '%s own=%s owner=%s level=%s' % (cont.loc(), own, owner, level)
                if reach == want:
                    run.ok(rid, site, 'decisions %s' % (sorted(x.split(':')[0] for x in want) or ['ignored']), nontrivial=(level in ('Authenticated', 'Undecided')))
                else:
                    extra = reach - want
                    miss = want - reach
                    run.violation(rid, 'handleMessage#own=%s,owner=%s,auth=%s%s' % (own, owner, auth, '' if level in ('Authenticated', 'Undecided') else ',level=' + level), site,
                                  'for sender (own account=%s, key owner=%s, sender key %s): %s%s' %
                                  (own, owner, level, ('does %s although it must not' % sorted(extra)) if extra else '',
                                   (' no longer does %s' % sorted(miss)) if miss else ''))
    # operands: senderJid is the bare JID of message.from(); the trust level is asked for (encryption, senderJid, senderKey)
    run.instance(rid)
    tl = [n for _, n in hm.calls() if hm.cname(n).endswith('::trustLevel')]
    ok = bool(tl) and len(tl[0]['args']) >= 3 and hm.nodes[hm.skip(tl[0]['args'][1])].get('decl') == sender_decl and sender_is_bare_from \
        and _key_from_metadata(hm, tl[0]['args'][2]) and 'QXmppTrustMessageElement::encryption()' in hm.fmt(tl[0]['args'][0])
    if ok:
        run.ok(rid, hm.loc(), 'sender = bare(message.from()); trust level looked up for (encryption, sender, e2ee sender key)')
    else:
        run.violation(rid, 'handleMessage#sender-identity', hm.loc(), 'the sender JID / sender key the decision is based on are not taken from the message envelope and its e2ee metadata')
    # entry guards
    for label, pred in (('the trust message comes from this very device (reflected by carbons)',
                         lambda f, nid: (False,) if (f.binop(nid) and f.binop(nid)[0] in ('!=',) and 'QXmppStanza::from()' in f.fmt(nid) and 'QXmppConfiguration::jid()' in f.fmt(nid)) else
                         ((True,) if (f.binop(nid) and f.binop(nid)[0] == '==' and 'QXmppStanza::from()' in f.fmt(nid) and 'QXmppConfiguration::jid()' in f.fmt(nid)) else None)),
                        ('the element is not an ATM trust message',
                         lambda f, nid: ((f.binop(nid)[0] == '!=',) if (f.binop(nid) and f.binop(nid)[0] in ('==', '!=') and 'usage()' in f.fmt(nid) and 'ns_atm' in f.fmt(nid)) else None))):
        run.instance(rid)
        ev = cfgx.Evaluator(hm, {}, custom=lambda f, nid, st, pred=pred: pred(f, nid))
        tls = [i for i, n in hm.calls() if hm.cname(n).endswith('::trustLevel')] + [i for i, n in hm.all_nodes('lambda')]
        res = cfgx.sink_reachability(hm, lambda f, c, st: ev.ev(c, st), tls)
        if any(res[i] is not None for i in tls):
            run.violation(rid, 'handleMessage#entry-guard#' + label.split(' ')[1], hm.loc(), 'decisions are evaluated although %s' % label)
        else:
            run.ok(rid, hm.loc(), 'ignored when %s' % label)


def r2(prog, run):
    rid = run.rule('C18.R2', 'closed call structure: keys become Authenticated only in authenticate(); postponed decisions are fired only by authenticate() '
                             'with the keys it just authenticated, are removed before being applied, and are discarded by distrust()', floor=7)
    def callers(qn, nparams=None):
        out = set()
        for f, i in prog.callers_by_qname(qn):
            if f.nodes[i]['k'] != 'call':
                continue
            if nparams is not None and len(f.nodes[i].get('args', [])) != nparams:
                continue
            out.add(top_function(prog, f).qname + '/%d' % len(top_function(prog, f).params))
        return out
    expect = {
        ATM + '::authenticate': {ATM + '::makeTrustDecisions/3'},
        ATM + '::distrust': {ATM + '::makeTrustDecisions/3'},
        ATM + '::makePostponedTrustDecisions': {ATM + '::authenticate/2'},
        ATM + '::distrustAutomaticallyTrustedKeys': {ATM + '::authenticate/2'},
    }
    for qn, want in expect.items():
        run.instance(rid)
        got = callers(qn)
        if got == want:
            run.ok(rid, prog.fn(qn).loc(), '%s called only from %s' % (qn.split('::')[-1], sorted(x.split('::')[-1] for x in want)))
        else:
            run.violation(rid, '%s#callers' % qn, prog.fn(qn).loc(), '%s is called from %s (allowed: %s)' % (qn.split('::')[-1], sorted(got), sorted(want)))
    run.instance(rid)
    got = callers(ATM + '::makeTrustDecisions', 3)
    want = {ATM + '::makeTrustDecisions/4', ATM + '::handleMessage/1', ATM + '::makePostponedTrustDecisions/2'}
    if got == want:
        run.ok(rid, 'src/client/QXmppAtmManager.cpp', 'makeTrustDecisions(sets) called from the manual API, the message handler and the postponed path only')
    else:
        run.violation(rid, 'makeTrustDecisions#callers', 'src/client/QXmppAtmManager.cpp', 'makeTrustDecisions(sets) is called from %s' % sorted(got))
    # setTrustLevel(..., Authenticated) only in authenticate
    run.instance(rid)
    bad = []
    n_auth = 0
    for f in prog.fns.values():
        if not f.file.endswith('QXmppAtmManager.cpp'):
            continue
        for i, n in f.calls():
            if f.cname(n).endswith('::setTrustLevel') and any(f.const_value(a) == ('enum', 'QXmpp::TrustLevel::Authenticated') for a in n.get('args', [])):
                n_auth += 1
                if top_function(prog, f).qname != ATM + '::authenticate':
                    bad.append(f.loc(i))
    if n_auth and not bad:
        run.ok(rid, prog.fn(ATM + '::authenticate').loc(), 'TrustLevel::Authenticated is assigned only by authenticate()')
    else:
        run.violation(rid, 'setTrustLevel-Authenticated#outside-authenticate', (bad or ['src/client/QXmppAtmManager.cpp'])[0], 'a key is set to Authenticated outside authenticate()')
    # postponed decisions fired with the just-authenticated keys
    au = prog.fn(ATM + '::authenticate')
    run.instance(rid)
    calls = [(f, i, n) for f in prog.closure(au) for i, n in f.calls(ATM + '::makePostponedTrustDecisions')]
    key_param = au.params[1].get('var') if len(au.params) > 1 else None

    def is_the_authenticated_keys(f, nid):
        # all key ids handed to authenticate(): values() of its own parameter - not of a local that was filtered (an empty filtered list means "all senders" to the storage)
        def leaves(g, x, depth=0):
            out = []
            for j in g.walk(x):
                v = g.nodes[j]
                if v['k'] != 'var':
                    continue
                d = g.single_def(v.get('decl')) if v.get('vk') == 'local' and depth < 3 else None
                out += leaves(g, d, depth + 1) if d is not None else [v]
            return out
        t = f.fmt(nid, inline=True)
        vs = leaves(f, nid)
        return 'values()' in t and bool(vs) and all(v.get('vk') == 'param' and v.get('decl') == key_param for v in vs)
    if calls and all(is_the_authenticated_keys(f, n['args'][1]) for f, i, n in calls) and \
            all(any(True for _ in l.calls(ATM + '::makePostponedTrustDecisions')) or True for l in [au]):
        # and only after setTrustLevel(Authenticated) completed: the calls sit in continuations of that task
        in_cont = all(f.is_lambda for f, i, n in calls)
        if in_cont:
            run.ok(rid, au.loc(), 'makePostponedTrustDecisions(encryption, keyIds.values()) inside the continuation of setTrustLevel(…, Authenticated)')
        else:
            run.violation(rid, 'authenticate#postponed-before-authenticated', au.loc(), 'postponed decisions are fired before the key has been authenticated')
    else:
        run.violation(rid, 'authenticate#postponed-keys', au.loc(), 'postponed decisions are not fired with the keys that were just authenticated')
    # removed before applied
    mp = prog.fn(ATM + '::makePostponedTrustDecisions')
    run.instance(rid)
    rm = [(f, i) for f in prog.closure(mp) for i, n in f.calls() if f.cname(n).endswith('::removeKeysForPostponedTrustDecisions')]
    ap = [(f, i) for f in prog.closure(mp) for i, n in f.calls(ATM + '::makeTrustDecisions')]

    def depth(f):
        d = 0
        while f.is_lambda and f.parent_id in prog.fns:
            f = prog.fns[f.parent_id]
            d += 1
        return d
    if rm and ap and all(depth(a[0]) > depth(r[0]) for a in ap for r in rm):
        run.ok(rid, mp.loc(), 'postponed entries are removed, and only in the continuation of the removal are they applied')
    else:
        run.violation(rid, 'makePostponedTrustDecisions#apply-before-remove', mp.loc(), 'postponed decisions are applied before (or without) being removed from the postponed store')
    di = prog.fn(ATM + '::distrust')
    run.instance(rid)
    rm = [(f, i, n) for f in prog.closure(di) for i, n in f.calls() if f.cname(n).endswith('::removeKeysForPostponedTrustDecisions')]
    ok = bool(rm)
    for f, i, n in rm:
        pos = f.pos(i)
        if not (pos and (pos[0] == f.entry or ('b', pos[0]) in f.pdom().get(('b', f.entry), set()))):
            ok = False
        if 'keyIds' not in f.fmt(n['args'][1], inline=False):
            ok = False
    if ok:
        run.ok(rid, di.loc(), 'distrust() discards the postponed decisions of the distrusted sender keys on every path')
    else:
        run.violation(rid, 'distrust#postponed-kept', di.loc(), 'distrusting a key does not discard the decisions postponed for it')


def r3(prog, run):
    rid = run.rule('C18.R3', 'the TOAKAFA policy arm only turns automatically trusted keys into automatically distrusted ones', floor=2)
    au = prog.fn(ATM + '::authenticate')
    run.instance(rid)
    calls = [(f, i) for f in prog.closure(au) for i, n in f.calls(ATM + '::distrustAutomaticallyTrustedKeys')]
    ok = bool(calls)
    for f, i in calls:
        if not any('Toakafa' in f.fmt(c) and f.binop(c) and ((f.binop(c)[0] == '==') == p) for c, p in f.atomic_assertions_at(i) if isinstance(p, bool)):
            ok = False
    if ok:
        run.ok(rid, au.loc(), 'distrustAutomaticallyTrustedKeys only under securityPolicy == Toakafa')
    else:
        run.violation(rid, 'authenticate#toakafa-guard', au.loc(), 'automatically trusted keys are distrusted regardless of the security policy')
    da = prog.fn(ATM + '::distrustAutomaticallyTrustedKeys')
    run.instance(rid)
    args = [[da.fmt(a) for a in n['args']] for i, n in da.calls() if da.cname(n).endswith('::setTrustLevel')]
    if len(args) == 1 and args[0][-2:] == ['QXmpp::TrustLevel::AutomaticallyTrusted', 'QXmpp::TrustLevel::AutomaticallyDistrusted']:
        run.ok(rid, da.loc(), 'AutomaticallyTrusted -> AutomaticallyDistrusted only')
    else:
        run.violation(rid, 'distrustAutomaticallyTrustedKeys#levels', da.loc(), 'policy distrust maps %s' % args)


def r4(prog, run):
    rid = run.rule('C18.R4', 'every promise in the trust decision chains is finished or handed on along every path (C07.R4 instances)', floor=6)
    for f in sorted(prog.fns.values(), key=lambda x: (x.file, x.line)):
        if not f.file.endswith('QXmppAtmManager.cpp') or f.raw.get('dependent'):
            continue
        pv = C07._promise_vars(f)
        for decl, (name, declared_here) in sorted(pv.items()):
            if not any(n['k'] == 'var' and n.get('decl') == decl for n in f.nodes):
                continue
            run.instance(rid)
            problems, npaths = C07._explore_promise(prog, f, decl, declared_here)
            run.paths += npaths
            if problems:
                run.violation(rid, '%s#promise:%s#%s' % (f.outer_name(), name, problems[0][0]), f.loc(),
                              'promise "%s" is %s on some path of %s' % (name, problems[0][0], f.display()[-70:]), cfgx.describe_path(f, problems[0][1]))
            else:
                run.ok(rid, f.loc(), '%s: promise finished or handed on' % f.display()[-60:], nontrivial=npaths > 1)


def r5(prog, run):
    rid = run.rule('C18.R5', 'a held-back decision is identified by (encryption, key id, key owner, sender key): the storage overwrites the decision of an existing entry only where all '
                             'identifying members of the entry have been compared with the new decision (directly, or through the entry type\'s operator==); otherwise decisions about '
                             'the same key id for two owners (or from two senders) merge', floor=1)
    recs = [r for q, r in prog.records.items() if q.endswith('UnprocessedKey') and 'QXmppAtmTrustMemoryStorage.cpp' in (r.get('file') or '')]
    if not recs:
        raise AnalysisBroken('C18.R5: the record of a held-back decision (UnprocessedKey) not found in QXmppAtmTrustMemoryStorage.cpp')
    rec = recs[0]
    payload = [fl for fl in rec['fields'] if fl.get('t') in ('bool', 'const bool')]
    ident = {fl.get('qname') or (rec['qname'] + '::' + fl['name']) for fl in rec['fields'] if fl not in payload}
    if len(payload) != 1 or len(ident) < 3:
        raise AnalysisBroken('C18.R5: unexpected shape of %s: %s' % (rec['qname'], [(fl['name'], fl.get('t')) for fl in rec['fields']]))
    pq = payload[0].get('qname') or (rec['qname'] + '::' + payload[0]['name'])

    def op_eq_fields():
        """identifying members compared by the record's operator==, if it has one"""
        out = set()
        for g in prog.fns.values():
            if g.qname == rec['qname'] + '::operator==' or (g.name == 'operator==' and rec['qname'].split('::')[-1] in ' '.join(p.get('t') or '' for p in g.params) and g.file == rec.get('file')):
                for _, rn in g.returns():
                    if 'e' not in rn:
                        continue
                    stack = [rn['e']]
                    while stack:
                        e = stack.pop()
                        bo = g.binop(g.skip(e))
                        if bo and bo[0] == '&&':
                            stack += [bo[1], bo[2]]
                        elif bo and bo[0] == '==':
                            for x in (bo[1], bo[2]):
                                m = g.nodes[g.skip(x)]
                                if m['k'] == 'mem' and m.get('f') in ident:
                                    out.add(m['f'])
                        elif g.nodes[g.skip(e)]['k'] == 'call' and 'tie' in g.cname(g.nodes[g.skip(e)]):
                            pass
        return out
    seen = 0
    for f in prog.fns.values():
        if not f.file.endswith('QXmppAtmTrustMemoryStorage.cpp'):
            continue
        for i, n in f.all_nodes('assign'):
            l = f.nodes[f.skip(n['l'])]
            if l['k'] != 'mem' or l.get('f') != pq:
                continue
            base = f.nodes[f.skip(l['base'])] if l.get('base') is not None else {}
            if base.get('k') == 'var' and base.get('vk') == 'local' and not (f.defs().get(base['decl']) or {}).get('ref'):
                continue                      # a new entry being filled in
            seen += 1
            run.instance(rid)
            have = set()
            for c, pol in f.atomic_assertions_at(i):
                bo = f.binop(f.skip(c))
                if bo and ((bo[0] == '==' and pol is True) or (bo[0] == '!=' and pol is False)):
                    for x in (bo[1], bo[2]):
                        m = f.nodes[f.skip(x)]
                        if m['k'] == 'mem' and m.get('f') in ident:
                            have.add(m['f'])
                # found through find(key, value) / std::find: the entry type's operator== decides
                for j in f.walk(c):
                    m = f.nodes[j]
                    if m['k'] == 'var' and m.get('vk') == 'local' and f.single_def(m['decl']) is not None:
                        m = f.nodes[f.skip(f.single_def(m['decl']))]       # if (auto it = map.find(k, v); it != end)
                    if m['k'] == 'call' and (f.sym(m) or {}).get('name') in ('find', 'constFind', 'contains', 'indexOf') and len([a for a in m.get('args', []) if f.nodes[a]['k'] != 'defarg']) >= 2:
                        have |= op_eq_fields()
            miss = ident - have
            if miss:
                run.violation(rid, 'postponed-decisions#entry-identity#%s' % '+'.join(sorted(x.split('::')[-1] for x in miss)), f.loc(i),
                              '%s overwrites the decision of a stored entry that was matched without comparing %s: decisions about the same key id for different %s are merged into one '
                              'entry (the first owner\'s entry gets the second owner\'s decision, the second owner\'s is lost)'
                              % (top_function(prog, f).display()[:60], ', '.join(sorted(x.split('::')[-1] for x in miss)), '/'.join(sorted(x.split('::')[-1] for x in miss))))
            else:
                run.ok(rid, f.loc(i), 'an entry is updated only after %s were compared' % ', '.join(sorted(x.split('::')[-1] for x in ident)))
    if not seen:
        raise AnalysisBroken('C18.R5: no update of a stored held-back decision found in QXmppAtmTrustMemoryStorage.cpp')


# --------------------------------------------------------------------------- R6: where the sender's level comes from; order of the two halves of one message
def r6(prog, run):
    rid = run.rule('C18.R6', 'the level a sender key is judged by is the stored one: the trustLevel() the message handler asks has no source of levels besides the storage\'s own '
                             'trustLevel() for the same (encryption, owner, key) - no level constant is produced there (an unstored or empty key must come out undecided, not '
                             'authenticated); and within one trust message the distrust half is applied in the continuation of the authentication half, so a held-back claim that '
                             'the authentications release cannot overwrite a distrust the same authenticated sender declares', floor=2)
    hm = prog.fn(ATM + '::handleMessage')
    tl = None
    for f in prog.closure(hm):
        for i, n in f.calls():
            s_ = f.sym(n) or {}
            if s_.get('name') == 'trustLevel' and len(n.get('args', [])) == 3:
                for g in prog.callee_fns(f, n):
                    if g.entry is not None:
                        tl = g
    if tl is None:
        raise AnalysisBroken('C18.R6: the trustLevel() the message handler asks for the sender key was not found (with a body)')
    run.instance(rid)
    consts = [(g, i) for g in prog.closure(tl) for i, n in enumerate(g.nodes) if n['k'] == 'enum' and 'TrustLevel' in (n.get('enum') or n.get('name') or '')]
    fwd = [(g, i) for g in prog.closure(tl) for i, n in g.calls() if (g.sym(n) or {}).get('name') == 'trustLevel' and 'Storage' in ((g.sym(n) or {}).get('record') or '')
           and len(n.get('args', [])) == 3 and all(g.nodes[g.skip(a)].get('vk') in ('param', 'capture') or g.nodes[g.skip(a)]['k'] == 'var' for a in n['args'])]
    if consts:
        g, i = consts[0]
        run.violation(rid, '%s#level-not-from-storage' % tl.qname, g.loc(i),
                      '%s produces the level %s itself instead of reporting what the storage holds: a sender key that is not stored as authenticated (an empty key of an '
                      'unencrypted message, a key equal to some special value) is judged authenticated and its trust message is applied' % (tl.qname, g.nodes[i].get('name')))
    elif not fwd:
        run.violation(rid, '%s#level-not-from-storage' % tl.qname, tl.loc(), '%s does not ask the storage for the level of (encryption, owner, key)' % tl.qname)
    else:
        run.ok(rid, tl.loc(), '%s forwards to the storage, no level constant' % tl.qname)
    mk = prog.fn(ATM + '::makeTrustDecisions', nparams=3)
    run.instance(rid)

    def depth(f):
        d = 0
        while f.is_lambda and f.parent_id in prog.fns:
            f = prog.fns[f.parent_id]
            d += 1
        return d
    au = [(f, i) for f in prog.closure(mk) for i, n in f.calls(ATM + '::authenticate')]
    di = [(f, i) for f in prog.closure(mk) for i, n in f.calls(ATM + '::distrust')]
    if not au or not di:
        raise AnalysisBroken('C18.R6: authenticate() / distrust() calls not found in makeTrustDecisions')
    if all(depth(d[0]) > depth(a[0]) for d in di for a in au):
        run.ok(rid, mk.loc(), 'distrust() runs in the continuation of authenticate()')
    else:
        run.violation(rid, 'makeTrustDecisions#distrust-before-authenticate', di[0][0].loc(di[0][1]),
                      'makeTrustDecisions applies the distrust half before (or beside) the authentication half: the postponed decisions released by the authentications run '
                      'afterwards and can re-authenticate a key the same message distrusts')


def _key_from_metadata(f, nid):
    """the sender key handed to the lookup is the e2ee metadata's sender key, or empty when there is no metadata - whatever the spelling
    (a ternary, or a local that starts empty and is assigned under the metadata test)"""
    if 'QXmppE2eeMetadata::senderKey()' in f.fmt(nid):
        return True
    n = f.nodes[f.skip(nid)]
    if n['k'] == 'var' and n.get('vk') == 'local':
        ds = [d for d in f.all_defs(n.get('decl')) if d is not None]
        texts = [f.fmt(d) for d in ds]
        empties = [f.nodes[f.skip(d)]['k'] == 'construct' and not [a for a in f.nodes[f.skip(d)].get('args', []) if f.nodes[a]['k'] != 'defarg'] for d in ds]
        return bool(ds) and any('QXmppE2eeMetadata::senderKey()' in t for t in texts) and all('QXmppE2eeMetadata::senderKey()' in t or e for t, e in zip(texts, empties))
    return False


# --------------------------------------------------------------------------- R7: per-manager state is not shared through function-local statics
def r7(prog, run):
    rid = run.rule('C18.R7', 'no member function of the trust managers keeps a value that depends on its object (its storage, its client, a member) in a function-local static: such a '
                             'value is computed for the first manager and handed to every other one, so a second account stores, fires and discards held-back decisions in the first '
                             'account\'s storage', floor=20)
    n = 0
    for f in prog.fns.values():
        if f.entry is None or f.is_lambda or (f.record or '') not in ('QXmppAtmManager', 'QXmppTrustManager') or f.raw.get('static'):
            continue
        n += 1
        run.instance(rid)
        bad = None
        for i, node in enumerate(f.nodes):
            if node['k'] != 'decl':
                continue
            for d in node.get('decls', []):
                if not d.get('static') or d.get('init') is None:
                    continue
                dep = [j for j in f.walk(d['init']) if f.nodes[j]['k'] in ('this', 'mem') or (f.nodes[j]['k'] == 'call' and f.nodes[j].get('obj') is None
                                                                                           and (f.sym(f.nodes[j]) or {}).get('record') in ('QXmppAtmManager', 'QXmppTrustManager', 'QXmppClientExtension')
                                                                                           and not (f.sym(f.nodes[j]) or {}).get('static'))]
                if dep:
                    bad = (i, d['name'])
        if bad:
            run.violation(rid, '%s#object-state-in-static:%s' % (f.qname, bad[1]), f.loc(bad[0]),
                          '%s caches %s, which is computed from its own object, in a function-local static: the value of the first manager is used by all later ones' % (f.display()[:50], bad[1]))
        else:
            run.ok(rid, f.loc(), 'no object-dependent static', nontrivial=False)
    if n < 20:
        raise AnalysisBroken('C18.R7: only %d member functions of the trust managers found' % n)
