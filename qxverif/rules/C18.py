"""C18 — automatic trust: only an authenticated key's holder can move trust, within scope (structural clauses)."""
from .. import cfgx
from ..build import AnalysisBroken
from ..effects import top_function
from . import C07

UNITS = ['client/QXmppAtmManager.cpp', 'client/QXmppTrustManager.cpp']
ATM = 'QXmppAtmManager'


def _lambda_chain(prog, fn):
    return prog.lambdas_in(fn)


def run(prog, run):
    run.explanation = ('The decision code of the trust-message handler is evaluated for all eight combinations of (sender is own account, sender is the key '
                       'owner, sender key authenticated): decisions are recorded only for a qualified sender, applied only if its key is authenticated and '
                       'postponed otherwise; the operands of those three tests are checked to be the sender\'s bare JID, the own bare JID / the key owner\'s JID '
                       'and the trust level delivered for (encryption, sender, sender key). The call structure around authenticate / setTrustLevel(Authenticated) '
                       'is closed, postponed decisions are fired only by authenticate with the just-authenticated keys and removed before they are applied, '
                       'distrust discards them, and the TOAKAFA arm only touches automatically trusted keys.')
    run.assume('conformance with the XEP-0450 reference model over all histories and the storage back-ends\' correctness are not decided')
    hm = prog.fn(ATM + '::handleMessage')
    r1(prog, run, hm)
    r2(prog, run)
    r3(prog, run)
    r4(prog, run)


def r1(prog, run, hm):
    rid = run.rule('C18.R1', 'trust-message decisions: recorded only for a qualified sender (own account, or owner of the keys), applied only when the sender\'s '
                             'key is authenticated, postponed otherwise; own-device reflections and non-ATM elements are ignored', floor=11)
    lams = prog.lambdas_in(hm, recursive=False)
    cont = None
    for l in lams:
        if any((l.sym(n) or {}).get('name') == 'insert' for _, n in l.calls()) and any((l.sym(n) or {}).get('name') == 'append' for _, n in l.calls()):
            cont = l
    if cont is None:
        raise AnalysisBroken('C18.R1: decision continuation not found in handleMessage')
    sinks = {}
    for i, n in cont.calls():
        name = (cont.sym(n) or {}).get('name')
        o = n.get('obj')
        if o is None:
            continue
        on = cont.nodes[cont.skip(o)]
        if name == 'insert' and on.get('name') in ('keysBeingAuthenticated', 'keysBeingDistrusted'):
            sinks[i] = 'apply:' + on['name']
        elif name in ('append', 'push_back') and 'Postponed' in (on.get('name') or ''):
            sinks[i] = 'postpone'
    if len(sinks) != 3:
        raise AnalysisBroken('C18.R1: expected two apply sets and one postponed list, found %s' % sorted(sinks.values()))

    def classify_cmp(f, nid):
        bo = f.binop(nid)
        if not bo or bo[0] not in ('==', '!='):
            return None
        a, b = f.fmt(bo[1]), f.fmt(bo[2])
        sides = (a, b)
        if any(x == 'senderJid' for x in sides):
            other = b if a == 'senderJid' else a
            if 'QXmppConfiguration::jidBare()' in other:
                return 'own', bo[0]
            if 'QXmppTrustMessageKeyOwner::jid()' in other:
                return 'owner', bo[0]
        if any(x == 'p0' for x in sides) and any('QXmpp::TrustLevel::Authenticated' == x for x in sides):
            return 'auth', bo[0]
        return None
    kinds = {classify_cmp(cont, i)[0] for i in range(len(cont.nodes)) if classify_cmp(cont, i)}
    if kinds != {'own', 'owner', 'auth'}:
        run.instance(rid)
        run.violation(rid, 'handleMessage#decision-operands', cont.loc(),
                      'the sender-scope / sender-key tests no longer compare (sender bare JID, own bare JID), (sender bare JID, key owner JID) and '
                      '(delivered trust level, Authenticated): found %s' % sorted(kinds))
        return
    for own in (True, False):
        for owner in (True, False):
            for auth in (True, False):
                run.instance(rid)
                vals = {'own': own, 'owner': owner, 'auth': auth}

                def custom(f, nid, st, vals=vals):
                    c = classify_cmp(f, nid)
                    if c:
                        return ((c[1] == '==') == vals[c[0]],)
                    return None
                ev = cfgx.Evaluator(cont, {}, custom=custom)
                res = cfgx.sink_reachability(cont, lambda f, c, st: ev.ev(c, st), list(sinks))
                reach = {sinks[i] for i in sinks if res[i] is not None}
                qualified = own or owner
                want = set()
                if qualified and auth:
                    want = {'apply:keysBeingAuthenticated', 'apply:keysBeingDistrusted'}
                elif qualified:
                    want = {'postpone'}
                site = '%s own=%s owner=%s auth=%s' % (cont.loc(), own, owner, auth)
                if reach == want:
                    run.ok(rid, site, 'decisions %s' % (sorted(x.split(':')[0] for x in want) or ['ignored']))
                else:
                    extra = reach - want
                    miss = want - reach
                    run.violation(rid, 'handleMessage#own=%s,owner=%s,auth=%s' % (own, owner, auth), site,
                                  'for sender (own account=%s, key owner=%s, key authenticated=%s): %s%s' %
                                  (own, owner, auth, ('does %s although it must not' % sorted(extra)) if extra else '',
                                   (' no longer does %s' % sorted(miss)) if miss else ''))
    # operands: senderJid is the bare JID of message.from(); the trust level is asked for (encryption, senderJid, senderKey)
    run.instance(rid)
    sj = [d for _, n in hm.all_nodes('decl') for d in n['decls'] if d['name'] == 'senderJid']
    tl = [n for _, n in hm.calls() if hm.cname(n).endswith('::trustLevel')]
    ok = sj and 'init' in sj[0] and hm.fmt(sj[0]['init']) == 'QXmppUtils::jidToBareJid(p0.QXmppStanza::from())' and tl \
        and [hm.fmt(a, inline=False) for a in tl[0]['args'][:3]] == ['encryption', 'senderJid', 'senderKey']
    sk = [d for _, n in hm.all_nodes('decl') for d in n['decls'] if d['name'] == 'senderKey']
    ok = ok and sk and 'QXmppE2eeMetadata::senderKey()' in hm.fmt(sk[0]['init'])
    if ok:
        run.ok(rid, hm.loc(), 'sender = bare(message.from()); trust level looked up for (encryption, sender, e2ee sender key)')
    else:
        run.violation(rid, 'handleMessage#sender-identity', hm.loc(), 'the sender JID / sender key the decision is based on are not taken from the message envelope and its e2ee metadata')
    # entry guards
    for label, pred in (('the trust message comes from this very device (reflected by carbons)',
                         lambda f, nid: (False,) if (f.binop(nid) and f.binop(nid)[0] in ('!=',) and 'QXmppStanza::from()' in f.fmt(nid) and 'QXmppConfiguration::jid()' in f.fmt(nid)) else
                         ((True,) if (f.binop(nid) and f.binop(nid)[0] == '==' and 'QXmppStanza::from()' in f.fmt(nid) and 'QXmppConfiguration::jid()' in f.fmt(nid)) else None)),
                        ('the element is not an ATM trust message',
                         lambda f, nid: ((f.binop(nid)[0] == '!=',) if (f.binop(nid) and f.binop(nid)[0] in ('==', '!=') and 'usage()' in f.fmt(nid) and 'ns_atm' in f.fmt(nid)) else None))):
        run.instance(rid)
        ev = cfgx.Evaluator(hm, {}, custom=lambda f, nid, st, pred=pred: pred(f, nid))
        tls = [i for i, n in hm.calls() if hm.cname(n).endswith('::trustLevel')] + [i for i, n in hm.all_nodes('lambda')]
        res = cfgx.sink_reachability(hm, lambda f, c, st: ev.ev(c, st), tls)
        if any(res[i] is not None for i in tls):
            run.violation(rid, 'handleMessage#entry-guard#' + label.split(' ')[1], hm.loc(), 'decisions are evaluated although %s' % label)
        else:
            run.ok(rid, hm.loc(), 'ignored when %s' % label)


def r2(prog, run):
    rid = run.rule('C18.R2', 'closed call structure: keys become Authenticated only in authenticate(); postponed decisions are fired only by authenticate() '
                             'with the keys it just authenticated, are removed before being applied, and are discarded by distrust()', floor=7)
    def callers(qn, nparams=None):
        out = set()
        for f, i in prog.callers_by_qname(qn):
            if f.nodes[i]['k'] != 'call':
                continue
            if nparams is not None and len(f.nodes[i].get('args', [])) != nparams:
                continue
            out.add(top_function(prog, f).qname + '/%d' % len(top_function(prog, f).params))
        return out
    expect = {
        ATM + '::authenticate': {ATM + '::makeTrustDecisions/3'},
        ATM + '::distrust': {ATM + '::makeTrustDecisions/3'},
        ATM + '::makePostponedTrustDecisions': {ATM + '::authenticate/2'},
        ATM + '::distrustAutomaticallyTrustedKeys': {ATM + '::authenticate/2'},
    }
    for qn, want in expect.items():
        run.instance(rid)
        got = callers(qn)
        if got == want:
            run.ok(rid, prog.fn(qn).loc(), '%s called only from %s' % (qn.split('::')[-1], sorted(x.split('::')[-1] for x in want)))
        else:
            run.violation(rid, '%s#callers' % qn, prog.fn(qn).loc(), '%s is called from %s (allowed: %s)' % (qn.split('::')[-1], sorted(got), sorted(want)))
    run.instance(rid)
    got = callers(ATM + '::makeTrustDecisions', 3)
    want = {ATM + '::makeTrustDecisions/4', ATM + '::handleMessage/1', ATM + '::makePostponedTrustDecisions/2'}
    if got == want:
        run.ok(rid, 'src/client/QXmppAtmManager.cpp', 'makeTrustDecisions(sets) called from the manual API, the message handler and the postponed path only')
    else:
        run.violation(rid, 'makeTrustDecisions#callers', 'src/client/QXmppAtmManager.cpp', 'makeTrustDecisions(sets) is called from %s' % sorted(got))
    # setTrustLevel(..., Authenticated) only in authenticate
    run.instance(rid)
    bad = []
    n_auth = 0
    for f in prog.fns.values():
        if not f.file.endswith('QXmppAtmManager.cpp'):
            continue
        for i, n in f.calls():
            if f.cname(n).endswith('::setTrustLevel') and any(f.const_value(a) == ('enum', 'QXmpp::TrustLevel::Authenticated') for a in n.get('args', [])):
                n_auth += 1
                if top_function(prog, f).qname != ATM + '::authenticate':
                    bad.append(f.loc(i))
    if n_auth and not bad:
        run.ok(rid, prog.fn(ATM + '::authenticate').loc(), 'TrustLevel::Authenticated is assigned only by authenticate()')
    else:
        run.violation(rid, 'setTrustLevel-Authenticated#outside-authenticate', (bad or ['src/client/QXmppAtmManager.cpp'])[0], 'a key is set to Authenticated outside authenticate()')
    # postponed decisions fired with the just-authenticated keys
    au = prog.fn(ATM + '::authenticate')
    run.instance(rid)
    calls = [(f, i, n) for f in prog.closure(au) for i, n in f.calls(ATM + '::makePostponedTrustDecisions')]
    if calls and all('keyIds' in f.fmt(n['args'][1], inline=False) and 'values()' in f.fmt(n['args'][1], inline=False) for f, i, n in calls) and \
            all(any(True for _ in l.calls(ATM + '::makePostponedTrustDecisions')) or True for l in [au]):
        # and only after setTrustLevel(Authenticated) completed: the calls sit in continuations of that task
        in_cont = all(f.is_lambda for f, i, n in calls)
        if in_cont:
            run.ok(rid, au.loc(), 'makePostponedTrustDecisions(encryption, keyIds.values()) inside the continuation of setTrustLevel(…, Authenticated)')
        else:
            run.violation(rid, 'authenticate#postponed-before-authenticated', au.loc(), 'postponed decisions are fired before the key has been authenticated')
    else:
        run.violation(rid, 'authenticate#postponed-keys', au.loc(), 'postponed decisions are not fired with the keys that were just authenticated')
    # removed before applied
    mp = prog.fn(ATM + '::makePostponedTrustDecisions')
    run.instance(rid)
    rm = [(f, i) for f in prog.closure(mp) for i, n in f.calls() if f.cname(n).endswith('::removeKeysForPostponedTrustDecisions')]
    ap = [(f, i) for f in prog.closure(mp) for i, n in f.calls(ATM + '::makeTrustDecisions')]

    def depth(f):
        d = 0
        while f.is_lambda and f.parent_id in prog.fns:
            f = prog.fns[f.parent_id]
            d += 1
        return d
    if rm and ap and all(depth(a[0]) > depth(r[0]) for a in ap for r in rm):
        run.ok(rid, mp.loc(), 'postponed entries are removed, and only in the continuation of the removal are they applied')
    else:
        run.violation(rid, 'makePostponedTrustDecisions#apply-before-remove', mp.loc(), 'postponed decisions are applied before (or without) being removed from the postponed store')
    di = prog.fn(ATM + '::distrust')
    run.instance(rid)
    rm = [(f, i, n) for f in prog.closure(di) for i, n in f.calls() if f.cname(n).endswith('::removeKeysForPostponedTrustDecisions')]
    ok = bool(rm)
    for f, i, n in rm:
        pos = f.pos(i)
        if not (pos and (pos[0] == f.entry or ('b', pos[0]) in f.pdom().get(('b', f.entry), set()))):
            ok = False
        if 'keyIds' not in f.fmt(n['args'][1], inline=False):
            ok = False
    if ok:
        run.ok(rid, di.loc(), 'distrust() discards the postponed decisions of the distrusted sender keys on every path')
    else:
        run.violation(rid, 'distrust#postponed-kept', di.loc(), 'distrusting a key does not discard the decisions postponed for it')


def r3(prog, run):
    rid = run.rule('C18.R3', 'the TOAKAFA policy arm only turns automatically trusted keys into automatically distrusted ones', floor=2)
    au = prog.fn(ATM + '::authenticate')
    run.instance(rid)
    calls = [(f, i) for f in prog.closure(au) for i, n in f.calls(ATM + '::distrustAutomaticallyTrustedKeys')]
    ok = bool(calls)
    for f, i in calls:
        if not any('Toakafa' in f.fmt(c) and f.binop(c) and ((f.binop(c)[0] == '==') == p) for c, p in f.atomic_assertions_at(i) if isinstance(p, bool)):
            ok = False
    if ok:
        run.ok(rid, au.loc(), 'distrustAutomaticallyTrustedKeys only under securityPolicy == Toakafa')
    else:
        run.violation(rid, 'authenticate#toakafa-guard', au.loc(), 'automatically trusted keys are distrusted regardless of the security policy')
    da = prog.fn(ATM + '::distrustAutomaticallyTrustedKeys')
    run.instance(rid)
    args = [[da.fmt(a) for a in n['args']] for i, n in da.calls() if da.cname(n).endswith('::setTrustLevel')]
    if len(args) == 1 and args[0][-2:] == ['QXmpp::TrustLevel::AutomaticallyTrusted', 'QXmpp::TrustLevel::AutomaticallyDistrusted']:
        run.ok(rid, da.loc(), 'AutomaticallyTrusted -> AutomaticallyDistrusted only')
    else:
        run.violation(rid, 'distrustAutomaticallyTrustedKeys#levels', da.loc(), 'policy distrust maps %s' % args)


def r4(prog, run):
    rid = run.rule('C18.R4', 'every promise in the trust decision chains is finished or handed on along every path (C07.R4 instances)', floor=6)
    for f in sorted(prog.fns.values(), key=lambda x: (x.file, x.line)):
        if not f.file.endswith('QXmppAtmManager.cpp') or f.raw.get('dependent'):
            continue
        pv = C07._promise_vars(f)
        for decl, (name, declared_here) in sorted(pv.items()):
            if not any(n['k'] == 'var' and n.get('decl') == decl for n in f.nodes):
                continue
            run.instance(rid)
            problems, npaths = C07._explore_promise(prog, f, decl, declared_here)
            run.paths += npaths
            if problems:
                run.violation(rid, '%s#promise:%s#%s' % (f.outer_name(), name, problems[0][0]), f.loc(),
                              'promise "%s" is %s on some path of %s' % (name, problems[0][0], f.display()[-70:]), cfgx.describe_path(f, problems[0][1]))
            else:
                run.ok(rid, f.loc(), '%s: promise finished or handed on' % f.display()[-60:], nontrivial=npaths > 1)
