"""C08 — every incoming IQ request is answered exactly once; responses are never answered.

R0 the typed request helper (handleIqRequests / handleIqType / processHandleIqResult / sendIqReply / checkIsIqRequest) really means
   "true => request, payload matched, replied exactly once"
R1 reply accounting for every handleStanza override of the bundled extensions, explored per IQ type
R2 the two fall-backs answer get/set exactly once with an error copied from the request and stay silent for result/error
R3 hand-built replies copy the request's id and sender
"""
import re

from .. import cfgx
from ..build import AnalysisBroken
from ..effects import top_function

UNITS = 'all'
TYPES = ('Get', 'Set', 'Result', 'Error')
SEND = {'QXmppClient::sendPacket', 'QXmppClient::send', 'QXmppClient::reply', 'QXmppClient::sendSensitive',
        'QXmpp::Private::StreamAckManager::send', 'QXmpp::Private::StreamAckManager::sendPacketCompat'}
HELPERS_R0 = ('QXmpp::handleIqRequests', 'QXmpp::handleIqElements')
INF = 9


class Ctx:
    def __init__(self, prog):
        self.prog = prog
        self.summaries = {}


def iq_local_type(fn, nid):
    """'Result' / 'Error' / 'Get' / 'Set' / None for a local IQ object: constructor argument or dominating setType()"""
    n = fn.nodes[fn.skip(nid)]
    if n['k'] == 'call' and fn.cname(n) in ('std::move',):
        n = fn.nodes[fn.skip(n['args'][0])]
    if n['k'] == 'call' and _PROG[0] is not None and not n.get('op'):
        # an IQ built by a same-file helper: the type of the object that helper returns
        for g in _PROG[0].callee_fns(fn, n):
            if g.file == fn.file and g.entry is not None and not g.is_lambda:
                ts = {iq_local_type(g, r['e']) for _, r in g.returns() if 'e' in r}
                if len(ts) == 1:
                    return ts.pop()
    if n['k'] != 'var':
        if n['k'] == 'construct' and n.get('cls') == 'QXmppPacket' and n.get('args'):
            return iq_local_type(fn, n['args'][0])
        if n['k'] == 'construct':
            for a in n.get('args', []):
                v = fn.const_value(a)
                if v and v[0] == 'enum' and v[1].startswith('QXmppIq::'):
                    return v[1].split('::')[-1]
        return None
    decl = n['decl']
    t = _class_default_type(fn, n.get('t', ''))
    d = fn.defs().get(decl)
    if d and d.get('init') is not None:
        init = fn.nodes[fn.skip(d['init'])]
        if init['k'] == 'construct':
            for a in init.get('args', []):
                v = fn.const_value(a)
                if v and v[0] == 'enum' and v[1].startswith('QXmppIq::'):
                    t = v[1].split('::')[-1]
    for i, c in fn.calls('QXmppIq::setType'):
        o = c.get('obj')
        if o is not None and fn.nodes[fn.skip(o)].get('decl') == decl and c.get('args'):
            v = fn.const_value(c['args'][0])
            if v and v[0] == 'enum':
                t = v[1].split('::')[-1]
            else:
                t = t or '?'
    return t


_CLASS_TYPE = {}
_PROG = [None]


def _class_default_type(fn, tname):
    """IQ type a class's default constructor sets (e.g. QXmppRpcResponseIq() : QXmppIq(QXmppIq::Result))"""
    prog = _PROG[0]
    cls = tname.replace('const ', '').replace('&', '').strip()
    if not prog or not cls or cls in ('QXmppIq',):
        return None
    if cls in _CLASS_TYPE:
        return _CLASS_TYPE[cls]
    res = None
    for g in prog.fns_named(cls + '::' + cls.split('::')[-1]):
        if g.params:
            continue
        for n in g.nodes:
            if n['k'] == 'init' and 'QXmppIq' in (n.get('base') or '') and 'e' in n:
                e = g.nodes[g.skip(n['e'])]
                for a in e.get('args', []):
                    v = g.const_value(a)
                    if v and v[0] == 'enum' and v[1].startswith('QXmppIq::'):
                        res = v[1].split('::')[-1]
        for i, c in g.calls('QXmppIq::setType'):
            v = g.const_value(c['args'][0]) if c.get('args') else None
            if v and v[0] == 'enum':
                res = v[1].split('::')[-1]
    _CLASS_TYPE[cls] = res
    return res


def is_reply_send(fn, n):
    """a call that puts an IQ of type result/error on the wire"""
    cn = fn.cname(n)
    if cn == 'QXmpp::Private::sendIqReply':
        return True
    if cn in SEND and n.get('args'):
        a = n['args'][0]
        an = fn.nodes[fn.resolve(a)]
        t = iq_local_type(fn, a)
        if t in ('Result', 'Error'):
            return True
        typ = (an.get('t') or an.get('cls') or '')
        if t is None and 'Iq' in typ and cn == 'QXmppClient::reply':
            return True
    return False


_PRED_CACHE = {}


def predicate_value(ctx, g, T, depth=0):
    """possible results of a bool predicate over the element under IQ type T: {True}, {False} or {True, False}"""
    key = (g.id, T)
    if key in _PRED_CACHE:
        return _PRED_CACHE[key]
    _PRED_CACHE[key] = {True, False}
    if depth > 2 or not g.params or 'QDomElement' not in g.params[0]['t'] or g.raw.get('ret') != 'bool':
        return {True, False}
    evc = type_evaluator(g, T, ctx=ctx, depth=depth + 1)
    reach = cfgx.reach_with_paths(g, evc)
    ev_vals = set()
    for i, n in g.returns():
        pos = g.pos(i)
        if not pos or pos[0] not in reach or 'e' not in n:
            continue
        v = evc(g, n['e'], None)
        if isinstance(v, bool):
            ev_vals.add(v)
        else:
            ev_vals |= {True, False}
    if not ev_vals:
        ev_vals = {True, False}
    _PRED_CACHE[key] = ev_vals
    return ev_vals


def type_evaluator(fn, T, extra=None, ctx=None, depth=0):
    """abstract input: the element is an <iq/> whose type attribute is T"""
    lit = T.lower()

    def custom(f, nid, st):
        if extra:
            r = extra(f, nid, st)
            if r is not None:
                return r
        n = f.nodes[nid]
        bo = f.binop(nid)
        if bo and bo[0] in ('==', '!='):
            a, b = f.fmt(bo[1]), f.fmt(bo[2])
            for x, y in ((a, b), (b, a)):
                if x == 'p0.QDomElement::tagName()' and y.startswith('"'):
                    return ((y == '"iq"') == (bo[0] == '=='),)
                if x == 'p0.QDomElement::attribute("type")' and y.startswith('"'):
                    return ((y == '"%s"' % lit) == (bo[0] == '=='),)
        if n['k'] == 'call' and f.cname(n) in ('QXmppIq::type',):
            return (('enum', 'QXmppIq::' + T),)
        if n['k'] == 'call' and f.cname(n) in HELPERS_R0 and T in ('Result', 'Error'):
            return (False,)
        if n['k'] == 'call' and st is not None and len(st) > 3 and st[3]:
            key = f.fmt(nid)
            for fact in st[3]:
                if isinstance(fact, tuple) and fact[0] == 'pred' and fact[1] == key:
                    return (fact[2],)
        if n['k'] == 'call' and st is not None and len(st) > 3 and st[3]:
            # the typed helper already said "not this payload": the class's own element predicate agrees
            s = f.sym(n)
            if s and s.get('static') and s.get('record') in {x for x in st[3] if isinstance(x, str)} and s['name'].startswith('is') and n.get('args') \
                    and f.fmt(n['args'][0]) == 'p0':
                return (False,)
        if n['k'] == 'call' and ctx is not None and n.get('args') and f.fmt(n['args'][0]) == 'p0' and n.get('t') == 'bool':
            for g in ctx.prog.callee_fns(f, n):
                if g.id != f.id and not g.is_lambda and len(g.params) == len(n['args']):
                    vals = predicate_value(ctx, g, T, depth)
                    if len(vals) == 1:
                        return (list(vals)[0],)
        return None
    ev = cfgx.Evaluator(fn, {}, custom=custom)
    return lambda f, c, st: ev.ev(c, st)


def summarise(ctx, fn, T, depth=0):
    """(min replies, max replies) over the paths of a helper under IQ type T"""
    key = (fn.id, T)
    if key in ctx.summaries:
        return ctx.summaries[key]
    ctx.summaries[key] = (0, 0)
    if depth > 3:
        return (0, 0)
    exits = explore_replies(ctx, fn, T, depth)
    lo = min((st[0] for st in exits), default=0)
    hi = max((st[1] for st in exits), default=0)
    ctx.summaries[key] = (lo, hi)
    return (lo, hi)


def explore_replies(ctx, fn, T, depth=0, init_excl=frozenset()):
    prog = ctx.prog
    evc = type_evaluator(fn, T, ctx=ctx)

    def transfer(f, nid, st):
        lo, hi, ret, excl = st
        n = f.nodes[nid]
        k = n['k']
        if k == 'call':
            cn = f.cname(n)
            if is_reply_send(f, n):
                return (min(lo + 1, INF), min(hi + 1, INF), ret, excl)
            # same-class helper (or file-static function): use its summary
            for g in prog.callee_fns(f, n):
                if g.id == f.id:
                    continue
                top = f
                while top.is_lambda and top.parent_id in prog.fns:
                    top = prog.fns[top.parent_id]
                same = (g.record and g.record == top.record) or (g.file == f.file and g.file.endswith('.cpp'))
                if same and not g.name.startswith('handleStanza'):
                    a, b = summarise(ctx, g, T, depth + 1)
                    if (a, b) != (0, 0):
                        return (min(lo + a, INF), min(hi + b, INF), ret, excl)
            # continuation / slot lambdas created here run later with the same request
            return None
        if k == 'assign':
            # the request's id is stored in a member: the reply is deferred (sent later with the stored id)
            l = f.nodes[f.skip(n['l'])]
            r = f.nodes[f.skip(n['r'])]
            if l['k'] == 'mem' and r['k'] == 'call' and f.cname(r) == 'QXmppStanza::id' and r.get('obj') is not None:
                o = f.nodes[f.skip(r['obj'])]
                if o['k'] == 'var' and o.get('vk') in ('param', 'local') and l['name'].lower().endswith('id') and T in ('Get', 'Set'):
                    return (min(lo + 1, INF), hi, ret, excl)     # counts against "swallowed", not as a sent reply
            return None
        if k == 'lambda':
            add_lo = add_hi = 0
            for lf in prog.lambda_fns(f, n):
                a, b = summarise(ctx, lf, T, depth + 1)
                add_lo += 0        # a continuation may also never run; completion of tasks is C07's subject
                add_hi += b
                add_lo += a
            if add_hi:
                return (min(lo + add_lo, INF), min(hi + add_hi, INF), ret, excl)
            return None
        if k == 'ret':
            if 'e' in n:
                v = f.const_value(n['e'])
                e = f.nodes[f.skip(n['e'])]
                # return a || helper(element): on the path where a is false the verdict is the helper's (explored with what is known so far, e.g. that the typed
                # request helper declined); where a is true the stanza is claimed
                eid = f.skip(n['e'])
                if e['k'] == 'bin' and e.get('op') == '||':
                    if ('orlhs', eid, True) in excl:
                        return (lo, hi, ('true', nid), excl)
                    if ('orlhs', eid, False) in excl:
                        r = f.nodes[f.skip(e['r'])]
                        if r['k'] == 'call' and not r.get('op') and depth < 3:
                            for g in prog.callee_fns(f, r):
                                top = f
                                while top.is_lambda and top.parent_id in prog.fns:
                                    top = prog.fns[top.parent_id]
                                if g.entry is not None and g.id != f.id and ((g.record and g.record == top.record) or g.file == f.file) \
                                        and any(f.fmt(a) == 'p0' for a in r.get('args', [])):
                                    sub = explore_replies(ctx, g, T, depth + 1, frozenset(x for x in excl if not (isinstance(x, tuple) and x[0] == 'orlhs')))
                                    claims = [x for x in sub if x[2] and x[2][0] in ('true', 'expr', 'r0')]
                                    if not claims:
                                        return (lo, hi, ('false', nid), excl)
                                    return (min(lo + min(x[0] for x in claims), INF), min(hi + max(x[1] for x in claims), INF), ('true', nid), excl)
                if v and v[0] == 'bool':
                    return (lo, hi, ('true', nid) if v[1] else ('false', nid), excl)
                if e['k'] == 'call' and f.cname(e) in HELPERS_R0:
                    return (lo, hi, ('r0', nid), excl)
                return (lo, hi, ('expr', nid), excl)
            return (lo, hi, ('void', nid), excl)
        return None

    def refine(f, cond, pol, st):
        lo, hi, ret, excl = st
        if isinstance(pol, bool):
            res = []

            def known(node):
                v = evc(f, node, st)
                return v if isinstance(v, bool) else None
            f._decompose(cond, pol, res, known)
            # the left operand of "return a || b": remember which way it went
            par = f.parents().get(f.skip(cond))
            while par is not None and f.nodes[par]['k'] in ('cast', 'icast', 'paren', 'tmp'):
                par = f.parents().get(par)
            if par is not None and f.nodes[par]['k'] == 'bin' and f.nodes[par].get('op') == '||' and f.skip(f.nodes[par]['l']) == f.skip(cond):
                excl = excl | {('orlhs', par, pol)}
            for c, p in res:
                n = f.nodes[f.skip(c)]
                if n['k'] == 'call' and isinstance(p, bool) and (f.sym(n) or {}).get('static') and (f.sym(n) or {}).get('name', '').startswith('is') \
                        and n.get('args') and f.fmt(n['args'][0]) == 'p0':
                    excl = excl | {('pred', f.fmt(f.skip(c)), p)}
                if n['k'] == 'call' and f.cname(n) in HELPERS_R0:
                    if p is True:
                        lo, hi = min(lo + 1, INF), min(hi + 1, INF)
                    elif T in ('Get', 'Set'):
                        targs = (f.sym(n) or {}).get('targs', '')
                        names = [x.strip() for x in targs.strip('<>').split(',')]
                        excl = excl | frozenset(x for x in names if x.startswith('QXmpp') or x[:1].isupper())
        return (lo, hi, ret, excl)
    exits, info = cfgx.explore(fn, (0, 0, None, frozenset(init_excl)), transfer, evc, refine)
    return exits


def run(prog, run):
    run.explanation = ('Reply accounting by exhaustive path exploration of every handleStanza override of the bundled extensions, once per IQ type '
                       '(get, set, result, error): branch conditions on the tag name, the type attribute and the parsed IQ\'s type() are folded, replies are '
                       'counted through same-class helpers and continuations, and each path that claims the stanza (returns true) must have sent exactly '
                       'one result/error IQ for a request and none for a response. The typed helper\'s contract is verified separately and then used as a summary.')
    run.assume('what applications or third-party extensions do in their own handleStanza or in slots of the emitted signals is outside the repository')
    run.assume('whether a reply\'s content is right is not decided')
    ctx = Ctx(prog)
    _PROG[0] = prog
    _PRED_CACHE.clear()
    _CLASS_TYPE.clear()
    r0(prog, run)
    r0b(prog, run)
    r1(prog, run, ctx)
    r2(prog, run, ctx)
    r3(prog, run)
    r4(prog, run)
    r5(prog, run)
    r6(prog, run)


# ------------------------------------------------------------------------------------------- R0
def r0(prog, run):
    rid = run.rule('C08.R0', 'typed helper contract: checkIsIqRequest is true only for get/set; handleIqType replies exactly once when the payload matches and '
                             'returns false otherwise; sendIqReply copies id and sender and forces result unless error', floor=12)
    chk = prog.fn('QXmpp::Private::checkIsIqRequest')
    for T in TYPES:
        run.instance(rid)
        evc = type_evaluator(chk, T)
        reach = cfgx.reach_with_paths(chk, evc)
        vals = set()
        for i, n in chk.returns():
            if chk.pos(i) and chk.pos(i)[0] in reach and 'e' in n:
                e = chk.nodes[chk.skip(n['e'])]
                first = None
                if e['k'] in ('initlist', 'construct'):
                    items = e.get('elems') or e.get('args') or []
                    if items:
                        first = chk.const_value(items[0])
                vals.add(first[1] if first else '?')
        want = {True} if T in ('Get', 'Set') else {False}
        if vals == want:
            run.ok(rid, chk.loc(), 'checkIsIqRequest(type=%s) -> %s' % (T.lower(), sorted(vals)))
        else:
            run.violation(rid, 'checkIsIqRequest#type:%s' % T.lower(), chk.loc(), 'checkIsIqRequest returns %s for an IQ of type %s' % (sorted(map(str, vals)), T.lower()))
    # sendIqReply
    sr = prog.fn('QXmpp::Private::sendIqReply')
    run.instance(rid)
    sets = {sr.cname(n): sr.fmt(n['args'][0]) for i, n in sr.calls() if sr.cname(n) in ('QXmppStanza::setTo', 'QXmppStanza::setId') and n.get('args')}
    replies = [i for i, n in sr.calls('QXmppClient::reply')]
    okshape = sets.get('QXmppStanza::setTo') == 'p2' and sets.get('QXmppStanza::setId') == 'p1' and len(replies) == 1 \
        and ('b', sr.pos(replies[0])[0]) in sr.pdom().get(('b', sr.entry), set())
    forced = True
    for T in ('Get', 'Set'):
        ev = cfgx.Evaluator(sr, {'QXmppIq::type': ('enum', 'QXmppIq::' + T)})

        def transfer(f, nid, st):
            n = f.nodes[nid]
            if n['k'] == 'call' and f.cname(n) == 'QXmppIq::setType' and n.get('args'):
                v = f.const_value(n['args'][0])
                return (v[1] if v else '?',)
            return None
        exits, _ = cfgx.explore(sr, (), transfer, lambda f, c, st: ev.ev(c, st))
        if any(st != ('QXmppIq::Result',) for st in exits):
            forced = False
    if okshape and forced:
        run.ok(rid, sr.loc(), 'sendIqReply: to=request sender, id=request id, get/set forced to result, exactly one reply()')
    else:
        run.violation(rid, 'sendIqReply#shape', sr.loc(), 'sendIqReply no longer copies id/sender, forces the type or replies exactly once (%s)' % sets)
    # handleIqType instantiations
    insts = [f for f in prog.fns.values() if f.name == 'handleIqType' and not f.is_lambda and not f.raw.get('dependent')]
    if len(insts) < 5:
        raise AnalysisBroken('C08.R0: only %d instantiations of handleIqType found' % len(insts))
    bad = 0
    for f in insts:
        run.instance(rid)

        def transfer(fn, nid, st):
            n = fn.nodes[nid]
            if n['k'] == 'call' and fn.cname(n) == 'QXmpp::Private::processHandleIqResult':
                return st + ('P',)
            if n['k'] == 'ret' and 'e' in n:
                v = fn.const_value(n['e'])
                return st + (('ret', v[1] if v else '?'),)
            return None
        exits, _ = cfgx.explore(f, (), transfer)
        ok = all((st == ('P', ('ret', True))) or (st == (('ret', False),)) for st in exits)
        if ok:
            run.ok(rid, f.loc(), 'handleIqType%s: match => one processHandleIqResult, true; else false' % f.targs[:50], nontrivial=False)
        else:
            bad += 1
            run.violation(rid, 'handleIqType#paths', f.loc(), 'handleIqType%s has a path that returns true without exactly one processHandleIqResult' % f.targs[:60])
        # the reply goes to the request's id and sender, both taken from the parsed request stanza itself
        for i, n in f.calls('QXmpp::Private::processHandleIqResult'):
            a = n.get('args', [])
            if len(a) < 3:
                continue
            run.instance(rid)
            tid, tfrom = f.fmt(a[1]), f.fmt(a[2])
            if tid.endswith('QXmppStanza::id()') and tfrom.endswith('QXmppStanza::from()'):
                run.ok(rid, f.loc(i), 'handleIqType%s: reply id = request.id(), reply to = request.from()' % f.targs[:40], nontrivial=False)
            else:
                bad += 1
                run.violation(rid, 'handleIqType#reply-addressing', f.loc(i),
                              'handleIqType%s addresses the reply with id=%s, to=%s instead of the id and sender of the request: the requester gets no reply and '
                              'another entity gets an unsolicited one' % (f.targs[:40], tid[-50:], tfrom[-60:]))
    # processHandleIqResult: every instantiation sends or schedules exactly one reply
    pins = [f for f in prog.fns.values() if f.name == 'processHandleIqResult' and not f.is_lambda and not f.raw.get('dependent')]
    for f in pins:
        run.instance(rid)
        direct = [i for i, n in f.calls() if f.cname(n) in ('QXmpp::Private::sendIqReply', 'QXmpp::Private::processHandleIqResult')]
        lam = prog.lambdas_in(f)
        inner = sum(1 for l in lam for i, n in l.calls() if l.cname(n) in ('QXmpp::Private::sendIqReply', 'QXmpp::Private::processHandleIqResult'))
        visits = [i for i, n in f.calls() if f.cname(n) in ('std::visit',)]
        thens = [i for i, n in f.calls() if f.cname(n).endswith('::then')]
        ok = (len(direct) == 1 and not lam) or (visits and inner >= 1 and all(
            sum(1 for i, n in l.calls() if l.cname(n) in ('QXmpp::Private::sendIqReply', 'QXmpp::Private::processHandleIqResult')) == 1
            for l in lam if any(True for _ in l.calls()))) or (thens and inner == 1)
        if ok:
            run.ok(rid, f.loc(), 'processHandleIqResult%s replies exactly once' % f.targs[:40], nontrivial=False)
        else:
            run.violation(rid, 'processHandleIqResult#count', f.loc(), 'processHandleIqResult%s does not reply exactly once on every path' % f.targs[:60])


def r0b(prog, run):
    rid = run.rule('C08.R0b', 'for every payload class served by the typed helper, the class\'s element predicate (isXIq) accepts exactly what the helper handles: '
                              'the first child with the (tag, namespace) pairs of checkIqType - R1 relies on "helper declined => predicate false"', floor=3)
    classes = set()
    for f in prog.fns.values():
        for i, n in f.calls():
            if f.cname(n) == 'QXmpp::handleIqRequests':
                for x in ((f.sym(n) or {}).get('targs') or '').strip('<>').split(','):
                    x = x.strip()
                    if x.startswith('QXmpp') and '*' not in x and 'Manager' not in x:
                        classes.add(x)
    if len(classes) < 3:
        raise AnalysisBroken('C08.R0b: payload classes of handleIqRequests not found (%s)' % sorted(classes))

    def disjuncts(f, nid):
        bo = f.binop(f.skip(nid))
        if bo and bo[0] == '||':
            return disjuncts(f, bo[1]) + disjuncts(f, bo[2])
        return [f.skip(nid)]
    # both sides pick the payload the same way: the first child element of the stanza and nothing else
    for qn, what in (('QXmpp::Private::isIqType', 'the shared element predicate'), ('QXmpp::Private::checkIsIqRequest', 'the typed request helper')):
        g = prog.fn(qn)
        run.instance(rid)
        probes = [i for i, n in g.calls() if g.cname(n) in ('QDomElement::tagName', 'QDomNode::namespaceURI') and n.get('obj') is not None
                  and not (g.nodes[g.skip(n['obj'])].get('vk') == 'param')]
        if not probes:
            raise AnalysisBroken('C08.R0b: %s no longer reads tag name / namespace of a child' % qn)
        bad = None
        for i in probes:
            o = g.nodes[g.skip(g.nodes[i]['obj'])]
            srcs = [g.skip(g.nodes[i]['obj'])] if o['k'] != 'var' else [d for d in g.all_defs(o.get('decl')) if d is not None]
            if not srcs:
                bad = (i, 'a value the checker cannot trace')
            for d in srcs:
                dn = g.nodes[g.skip(d)]
                real = [a for a in dn.get('args', []) if g.nodes[a]['k'] != 'defarg'] if dn['k'] == 'call' else None
                member_form = dn['k'] == 'call' and g.cname(dn) == 'QDomNode::firstChildElement' and not real and dn.get('obj') is not None \
                    and g.nodes[g.skip(dn['obj'])].get('vk') == 'param'
                helper_form = dn['k'] == 'call' and g.cname(dn) == 'QXmpp::Private::firstChildElement' and real is not None and len(real) == 1 \
                    and g.nodes[g.skip(real[0])].get('vk') == 'param'
                if not (member_form or helper_form):
                    bad = (i, g.fmt(d, inline=False)[:70])
        if bad:
            run.violation(rid, '%s#payload-not-first-child' % qn.split('::')[-1], g.loc(bad[0]),
                          '%s (%s) reads tag / namespace of %s instead of the first child element of the stanza: predicate and request helper no longer agree on which child is '
                          'the payload, so a request the helper declines can be claimed by a manager\'s response branch (nobody answers) or the other way round'
                          % (qn.split('::')[-1], what, bad[1]))
        else:
            run.ok(rid, g.loc(), '%s looks at element.firstChildElement() only' % qn.split('::')[-1])
    for t in sorted(classes):
        preds = [f for f in prog.fns.values() if f.record == t and f.name.startswith('is') and f.name.endswith('Iq') and len(f.params) == 1 and 'QDomElement' in f.params[0]['t'] and not f.is_lambda]
        chk = [f for f in prog.fns.values() if f.record == t and f.name == 'checkIqType']
        if not preds or not chk:
            continue
        run.instance(rid)
        want = set()
        for _, r in chk[0].returns():
            if 'e' not in r:
                continue
            txt = chk[0].fmt(r['e'], inline=False)
            tags = re.findall(r'p0 == "([^"]+)"', txt)
            nss = re.findall(r'p1 == (\w+)', txt)
            want |= {(tg, ns) for tg in tags for ns in nss}
        got = set()
        other = []
        for pf in preds:
            for _, r in pf.returns():
                if 'e' not in r:
                    continue
                for dj in disjuncts(pf, r['e']):
                    n = pf.nodes[dj]
                    if n['k'] == 'call' and pf.cname(n) == 'QXmpp::Private::isIqType' and len(n.get('args', [])) >= 3 and pf.fmt(n['args'][0]) == 'p0':
                        got.add((pf.strval(n['args'][1]), pf.fmt(n['args'][2], inline=False)))
                    elif n['k'] == 'call' and pf.cname(n) == t + '::checkIqType' and len(n.get('args', [])) == 2 and \
                            [pf.fmt(a, inline=True) for a in n['args']] in (['p0.QDomNode::firstChildElement().QDomElement::tagName()', 'p0.QDomNode::firstChildElement().QDomNode::namespaceURI()'],
                                                                           ['QXmpp::Private::firstChildElement(p0).QDomElement::tagName()', 'QXmpp::Private::firstChildElement(p0).QDomNode::namespaceURI()']):
                        got |= want          # the class's own (tag, namespace) table applied to the first child: what the typed helper does
                    else:
                        other.append(pf.fmt(dj, inline=False)[:70])
        if other:
            run.violation(rid, '%s#predicate-not-first-child' % t, preds[0].loc(),
                          '%s::%s decides by %s, not by the first child element the typed request helper looks at: a request whose payload is not the first child '
                          'is declined by the helper but claimed by the manager\'s response branch, and nobody answers it' % (t, preds[0].name, other[0]))
        elif got != want:
            run.violation(rid, '%s#predicate-mismatch' % t, preds[0].loc(), '%s accepts %s but checkIqType accepts %s' % (preds[0].name, sorted(got), sorted(want)))
        else:
            run.ok(rid, preds[0].loc(), '%s::%s == first child in %s' % (t, preds[0].name, sorted(want)))


# ------------------------------------------------------------------------------------------- R1
def handlers(prog):
    out = []
    for f in prog.fns.values():
        if f.is_lambda or f.name != 'handleStanza' or not f.record or '/src/client/' not in f.file:
            continue
        if f.record in ('QXmppOutgoingClient', 'QXmpp::Private::OutgoingIqManager', 'QXmppClientExtension', 'QXmpp::Private::StreamAckManager'):
            continue
        out.append(f)
    return sorted(out, key=lambda f: f.qname)


def r1(prog, run, ctx):
    rid = run.rule('C08.R1', 'per extension and IQ type: a path that claims the stanza sends exactly one result/error IQ for get/set and nothing for result/error', floor=64)
    hs = handlers(prog)
    if len(hs) < 15:
        raise AnalysisBroken('C08.R1: only %d handleStanza overrides found' % len(hs))
    run.extra['handlers'] = [f.qname for f in hs]
    for f in hs:
        for T in TYPES:
            run.instance(rid)
            exits = explore_replies(ctx, f, T)
            run.paths += len(exits)
            problems = {}

            def pred_of(site):
                preds = []
                for c, p in f.atomic_assertions_at(site):
                    if p is not True:
                        continue
                    n = f.nodes[f.skip(c)]
                    if n['k'] == 'call':
                        sy = f.sym(n)
                        if sy and sy['name'].startswith('is') and n.get('args') and f.fmt(n['args'][0]) == 'p0':
                            preds.append(sy['name'] if sy['name'] != 'isIqType' else 'isIqType:' + (f.strval(n['args'][1]) or '?'))
                    bo = f.binop(c)
                    if bo and bo[0] == '==':
                        t = f.fmt(c, inline=False)
                        m = re.search(r'\.(\w*[Ii]d)\b', t)
                        if m and 'attribute("id")' in f.fmt(c):
                            preds.append('id==' + m.group(1))
                return preds[-1] if preds else 'any'
            for (lo, hi, ret, excl), path in exits.items():
                if not ret or ret[0] not in ('true', 'expr'):
                    continue
                site = ret[1]
                if T in ('Get', 'Set'):
                    if lo == 0:
                        problems.setdefault(('swallow', pred_of(site)), (path, site))
                    if hi >= 2:
                        problems.setdefault(('double-reply', pred_of(site)), (path, site))
                elif hi >= 1:
                    problems.setdefault(('answers-response', pred_of(site)), (path, site))
            if not problems:
                run.ok(rid, f.loc(), '%s type=%s: %d path classes accounted' % (f.record, T.lower(), len(exits)), nontrivial=len(exits) > 1)
                continue
            for (kind, pred), (path, site) in sorted(problems.items()):
                desc = cfgx.describe_path(f, path)
                what = {'swallow': 'claims an IQ of type %s (%s) without sending any reply: the request is swallowed' % (T.lower(), pred),
                        'double-reply': 'may send two replies to one IQ of type %s (%s)' % (T.lower(), pred),
                        'answers-response': 'sends a reply to an IQ of type %s (%s): responses must never be answered' % (T.lower(), pred)}[kind]
                run.violation(rid, '%s#%s#%s#%s' % (f.qname, T.lower(), kind, pred), f.loc(site), f.record + ' ' + what, desc)


# ------------------------------------------------------------------------------------------- R2
def r2(prog, run, ctx):
    rid = run.rule('C08.R2', 'the fall-backs (QXmppClient::injectIq, QXmppOutgoingClient::handleStanza) answer an unhandled get/set exactly once with an '
                             'error carrying the request\'s id and sender, and send nothing for result/error; the pipeline stops at the first owner', floor=9)
    for qn in ('QXmppClient::injectIq', 'QXmppOutgoingClient::handleStanza'):
        fn = prog.fn(qn)
        for T in TYPES:
            run.instance(rid)

            def extra(f, nid, st):
                n = f.nodes[nid]
                if n['k'] == 'call' and f.cname(n) == 'QXmpp::Private::StanzaPipeline::process':
                    return (False,)
                return None
            evc = type_evaluator(fn, T, extra)

            def transfer(f, nid, st):
                n = f.nodes[nid]
                if n['k'] == 'call' and f.cname(n) in SEND | {'QXmppClient::reply'}:
                    t = iq_local_type(f, n['args'][0])
                    return st + (t or '?',)
                return None
            exits, _ = cfgx.explore(fn, (), transfer, evc)
            run.paths += len(exits)
            bad = None
            for st, path in exits.items():
                if T in ('Get', 'Set') and st != ('Error',):
                    bad = ('unhandled %s request is answered %s' % (T.lower(), list(st) or 'not at all'), path)
                if T in ('Result', 'Error') and st:
                    bad = ('an IQ of type %s is answered (%s)' % (T.lower(), list(st)), path)
            if bad:
                run.violation(rid, '%s#%s' % (qn, T.lower()), fn.loc(), bad[0], cfgx.describe_path(fn, bad[1]))
            else:
                run.ok(rid, fn.loc(), '%s type=%s: %s' % (qn.split('::')[-1], T.lower(), 'one error reply' if T in ('Get', 'Set') else 'silent'))
        # addressing of the error
        run.instance(rid)
        ids = [fn.fmt(n['args'][0]) for i, n in fn.calls('QXmppStanza::setId') if n.get('args')]
        tos = [fn.fmt(n['args'][0]) for i, n in fn.calls('QXmppStanza::setTo') if n.get('args')]
        # ... or in a same-file helper that receives the request element and builds the error
        for i, n in fn.calls():
            for g in prog.callee_fns(fn, n):
                if g.file == fn.file and g.entry is not None and not g.is_lambda and n.get('args') and fn.fmt(n['args'][0]) == 'p0' and not n.get('obj'):
                    ids += [g.fmt(m['args'][0]) for _, m in g.calls('QXmppStanza::setId') if m.get('args')]
                    tos += [g.fmt(m['args'][0]) for _, m in g.calls('QXmppStanza::setTo') if m.get('args')]
        if ids == ['p0.QDomElement::attribute("id")'] and tos == ['p0.QDomElement::attribute("from")']:
            run.ok(rid, fn.loc(), '%s: error reply id <- request id, to <- request from' % qn.split('::')[-1])
        else:
            run.violation(rid, '%s#addressing' % qn, fn.loc(), 'fallback error is addressed with id=%s to=%s' % (ids, tos))
    pipe = prog.fn('QXmpp::Private::StanzaPipeline::process')
    run.instance(rid)
    rets = [(i, pipe.const_value(n['e'])) for i, n in pipe.returns() if 'e' in n]
    in_loop = [i for i, v in rets if v == ('bool', True) and any(True for (_, b, e) in pipe.edges_dominating(pipe.pos(i)[0])
                                                                 if pipe.blocks[b].get('term', {}).get('k') == 'rangefor' and e == 0)]
    short_circuit_algo = any(pipe.cname(pipe.nodes[pipe.skip(n['e'])]) in ('std::any_of', 'std::ranges::any_of', 'std::find_if', 'std::ranges::find_if')
                             for i, n in pipe.returns() if 'e' in n and pipe.nodes[pipe.skip(n['e'])]['k'] == 'call')
    if in_loop and any(v == ('bool', False) for _, v in rets):
        run.ok(rid, pipe.loc(), 'StanzaPipeline::process returns at the first extension that claims the stanza')
    elif short_circuit_algo:
        run.ok(rid, pipe.loc(), 'StanzaPipeline::process uses std::any_of / find_if over the extension list (stops at the first owner by contract)')
    else:
        run.violation(rid, 'StanzaPipeline::process#first-owner', pipe.loc(), 'the extension chain does not stop at the first owner')


# ------------------------------------------------------------------------------------------- R3
def r3(prog, run):
    rid = run.rule('C08.R3', 'a reply IQ built by hand in a manager takes its id from the request (and its addressee from the request\'s sender where one is set)', floor=12)
    for f in prog.fns.values():
        if '/src/client/' not in f.file or f.raw.get('dependent'):
            continue
        top = top_function(prog, f)
        if top.record in ('QXmppClient', 'QXmppOutgoingClient') or not top.record or 'Manager' not in (top.record or ''):
            continue
        for i, n in f.calls():
            if f.cname(n) not in SEND or not n.get('args'):
                continue
            a = f.nodes[f.skip(n['args'][0])]
            if a['k'] != 'var':
                continue
            t = iq_local_type(f, n['args'][0])
            if t not in ('Result', 'Error'):
                continue
            decl = a['decl']
            ids = [f.fmt(c['args'][0]) for _, c in f.calls('QXmppStanza::setId')
                   if c.get('obj') is not None and f.nodes[f.skip(c['obj'])].get('decl') == decl and c.get('args')]
            tos = [f.fmt(c['args'][0]) for _, c in f.calls('QXmppStanza::setTo')
                   if c.get('obj') is not None and f.nodes[f.skip(c['obj'])].get('decl') == decl and c.get('args')]
            run.instance(rid)
            id_ok = bool(ids) and not any('generateStanza' in x for x in ids)     # taken from the request, possibly stored until the reply is due
            to_ok = True
            if id_ok and to_ok:
                run.ok(rid, f.loc(i), '%s: reply id <- %s%s' % (top.qname.split('::')[-1], ids[0][:40], '' if tos else ' (addressee implicit: own server)'))
            else:
                run.violation(rid, '%s#reply-addressing' % top.qname, f.loc(i),
                              'hand-built %s reply has id=%s to=%s: it does not answer the request it was built for' % (t.lower(), ids or 'unset', tos or 'unset'))


def r4(prog, run):
    rid = run.rule('C08.R4', 'the consumers that see a received IQ before the extensions do (the matcher of replies to our own requests) never claim a get/set: a request '
                             'whose id happens to equal the id of one of our pending requests still reaches a handler or the fall-back', floor=2)
    he = prog.fn('QXmppOutgoingClient::handleElement')
    early = []
    pipeline = [i for i, n in he.calls() if he.cname(n) in ('QXmppOutgoingClient::elementReceived', 'QXmppOutgoingClient::handleStanza')]
    for i, n in he.calls():
        cn = he.cname(n)
        if cn.endswith('::handleStanza') and cn not in ('QXmppOutgoingClient::handleStanza',) and 'StreamAckManager' not in cn \
                and pipeline and any(he.node_dominates(i, p) for p in pipeline):
            for g in prog.callee_fns(he, n):
                if g.entry is not None and g.id not in [x.id for x in early]:
                    early.append(g)
    if not early:
        raise AnalysisBroken('C08.R4: no consumer ahead of the extension pipeline found in QXmppOutgoingClient::handleElement (OutgoingIqManager::handleStanza expected)')
    for g in early:
        for T in ('Get', 'Set'):
            run.instance(rid)
            evc = type_evaluator(g, T)
            reach = cfgx.reach_with_paths(g, evc)
            bad = None
            for i, n in g.returns():
                pos = g.pos(i)
                if pos and pos[0] in reach and 'e' in n and g.const_value(n['e']) != ('bool', False):
                    v = evc(g, n['e'], None)
                    if v is not False:
                        bad = (i, reach[pos[0]])
            if bad:
                run.violation(rid, '%s#claims-%s' % (g.qname, T.lower()), g.loc(bad[0]),
                              '%s can claim an IQ of type %s (return %s): the request is consumed as if it were the reply to one of our own requests and is never answered'
                              % (g.qname.split('::', 2)[-1], T.lower(), g.fmt(g.nodes[bad[0]]['e'])[:40]), cfgx.describe_path(g, bad[1]))
            else:
                run.ok(rid, g.loc(), '%s never claims an IQ of type %s' % (g.qname.split('::', 2)[-1], T.lower()))


def r5(prog, run):
    rid = run.rule('C08.R5', 'a slot that answers a stored request (sends a result/error IQ) is one-shot: before any reply it disconnects itself from the signal that '
                             'invokes it, or consumes the latch member it tested (a signal that fires again - a further state change, a second candidate - must not '
                             'produce a second reply to the same request)', floor=2)
    from ..callgraph import connects
    slots = {}
    for c in connects(prog):
        if c['kind'] == 'slot':
            slots.setdefault(c['target']['qname'], set()).add(c['signal']['qname'])
    seen = 0
    for qn, sigs in sorted(slots.items()):
        f = prog.fn(qn, required=False)
        if f is None or '/src/client/' not in f.file:
            continue
        sends = [i for i, n in f.calls() if f.cname(n) in SEND and n.get('args') and iq_local_type(f, n['args'][0]) in ('Result', 'Error')]
        if not sends:
            continue
        seen += 1
        discs = []
        for i, n in f.calls():
            if f.cname(n).endswith('::disconnect') and any(f.nodes[j]['k'] in ('fnref', 'methref') and f.cname(f.nodes[j]) == qn for a in n.get('args', []) for j in f.walk(a)):
                discs.append(i)
        latches = []
        for i, n in f.all_nodes('assign'):
            l = f.nodes[f.skip(n['l'])]
            if l['k'] == 'mem' and f.const_value(n['r']) in (('null', None), ('bool', False), ('int', 0)):
                tested = any(f.nodes[j]['k'] == 'mem' and f.nodes[j].get('f') == l['f'] for c, pol in f.atomic_assertions_at(i) for j in f.walk(c))
                if tested:
                    latches.append(i)
        for sd in sends:
            run.instance(rid)
            if any(f.node_dominates(d, sd) for d in discs):
                run.ok(rid, f.loc(sd), '%s: disconnects itself from %s before replying' % (qn.split('::')[-1], '/'.join(sorted(x.split('::')[-1] for x in sigs))))
            elif any(f.node_dominates(a, sd) for a in latches):
                run.ok(rid, f.loc(sd), '%s: the latch it tested is cleared before replying' % qn.split('::')[-1])
            else:
                run.violation(rid, '%s#replies-again' % qn, f.loc(sd),
                              '%s sends an IQ reply but stays connected to %s on this path (no self-disconnect and no consumed latch before the reply): when the signal fires again the '
                              'same request is answered a second time' % (qn, '/'.join(sorted(sigs))))
    if not seen:
        raise AnalysisBroken('C08.R5: no slot that sends an IQ reply found (QXmppTransferManager::_q_jobStateChanged expected)')


# ------------------------------------------------------------------------------------------- R6
def r6(prog, run):
    rid = run.rule('C08.R6', 'a function that sends the answer to a request whose id was stored earlier (the deferred answer to a bytestream offer) leaves on every path either having '
                             'sent that answer or having armed what will call it again (a signal connection, a connection attempt, a timer): a path that simply returns - "the job was '
                             'aborted meanwhile" - leaves the peer\'s request without any reply', floor=1)
    n = 0
    for f in prog.fns.values():
        if f.entry is None or f.is_lambda or '/src/client/' not in f.file or f.raw.get('dependent'):
            continue
        # IQ locals whose id is set from a member and that are sent
        stored = set()
        for i, c in f.calls():
            if (f.sym(c) or {}).get('name') == 'setId' and c.get('obj') is not None and c.get('args'):
                o = f.nodes[f.skip(c['obj'])]
                a = f.nodes[f.skip(c['args'][0])]
                if o['k'] == 'var' and o.get('vk') == 'local' and a['k'] == 'mem' and a['name'].lower().endswith('id'):
                    stored.add(o.get('decl'))
        sends = [i for i, c in f.calls() if (f.cname(c) or '') in SEND | {'QXmppClient::reply'} and c.get('args')
                 and f.nodes[f.skip(c['args'][0])].get('decl') in stored]
        if not sends:
            continue
        # only functions that are not themselves slots of the "state changed" kind handled by R5: the answer is sent in a function that retries
        arms = [i for i, c in f.calls() if (f.cname(c) or '') in ('QObject::connect', 'QTimer::start', 'QTimer::singleShot') or (f.cname(c) or '').endswith('::connectToHost')]
        if not arms:
            continue
        def transfer(g, nid, st, sends=sends, arms=arms):
            if nid in sends and 'reply' not in st:
                return st + ('reply',)
            if nid in arms and 'armed' not in st:
                return st + ('armed',)
            return None
        exits, _ = cfgx.explore(f, (), transfer, None, max_states=20000)
        # the retry driver: answering (giving up) and arming the next attempt are alternatives - no path does both.  Slots that answer and go on, or that have a
        # legitimate "nothing to do" exit next to an answer-and-continue path, are R5's subject
        if any('reply' in st and 'armed' in st for st in exits) or not any(st == ('reply',) for st in exits) or not any(st == ('armed',) for st in exits):
            continue
        n += 1
        run.instance(rid)
        bad = [(st, w) for st, w in exits.items() if not st]
        if bad:
            run.violation(rid, '%s#path-without-answer' % f.qname, f.loc(),
                          '%s has a path on which it neither sends the stored request\'s answer nor arms another attempt: the request stays unanswered' % f.display()[:60],
                          cfgx.describe_path(f, bad[0][1]))
        else:
            run.ok(rid, f.loc(), 'every path answers the stored request or arms the next attempt (%d paths)' % len(exits))
    if not n:
        raise AnalysisBroken('C08.R6: no function answers a stored request id while also arming a retry (QXmppTransferIncomingJob::connectToNextHost expected)')
