"""C15 — ICE reacts only to checks authenticated with the session password (safety half, structural clauses)."""
from .. import cfgx
from ..build import AnalysisBroken
from ..effects import classify_use, field_uses, top_function
from . import C14

UNITS = ['base/QXmppStun.cpp', 'base/QXmppUtils.cpp']
IC = 'QXmppIceComponent'
ICP = 'QXmppIceComponentPrivate'
STATE_FIELDS = (ICP + '::remoteCandidates', ICP + '::pairs', ICP + '::activePair', 'CandidatePair::nominated', 'CandidatePair::nominating')


def state_atoms(hd):
    """(nid, what) of everything in handleDatagram that changes connectivity state"""
    out = []
    for i, n in enumerate(hd.nodes):
        if n['k'] == 'mem' and n['f'] in STATE_FIELDS:
            k, h = classify_use(hd, i)
            if k in ('write', 'addr'):
                out.append((i, 'write %s (%s)' % (n['f'].split('::')[-1], h.split(' ')[0])))
    for i, n in hd.calls():
        cn = hd.cname(n)
        if cn in ('CandidatePair::setState', ICP + '::performCheck', IC + '::connected'):
            out.append((i, cn.split('::')[-1] + '()'))
        elif cn == 'QXmppStunTransaction::readStun' and 'pair' in hd.fmt(n['obj'], inline=False):
            out.append((i, 'pair->transaction->readStun()'))
        elif cn == ICP + '::writeStun':
            out.append((i, 'binding response sent (writeStun)'))
    return out


def run(prog, run):
    run.explanation = ('Everything in QXmppIceComponent::handleDatagram that changes connectivity state (learning candidates, creating or nominating pairs, '
                       'triggered checks, feeding check transactions, selecting the active pair, reporting connected) is enumerated from the field-write '
                       'and call facts and must be unreachable when the keyed decode fails or when no session password is available; the key is chosen by '
                       'message class symmetrically to the sender; a keyed decode cannot succeed without a verified MESSAGE-INTEGRITY (shared with C14.R3); '
                       'responses reach their transaction only after the transaction-id and source-address match.')
    run.assume('liveness (two honest agents connect under loss), priority values and datagram pass-through are schedule/numeric claims (not decided)')
    hd = prog.fn(IC + '::handleDatagram')
    atoms = state_atoms(hd)
    if len(atoms) < 8:
        raise AnalysisBroken('C15: only %d state-changing atoms found in handleDatagram' % len(atoms))
    decode_calls = [i for i, n in hd.calls('QXmppStunMessage::decode')]
    if not decode_calls:
        # the decode may sit in a same-file helper (its boolean result is then evaluated through the helper: the verdict must be the decoder's)
        for i, n in hd.calls():
            if not n.get('op'):
                for g in prog.callee_fns(hd, n):
                    if g.file == hd.file and g.entry is not None and any(True for _ in g.calls('QXmppStunMessage::decode')):
                        decode_calls.append(i)
    if not decode_calls:
        raise AnalysisBroken('C15: handleDatagram no longer decodes the datagram')

    def mk(decode_ok, no_transaction, password_empty):
        def custom(f, nid, st):
            n = f.nodes[nid]
            if n['k'] == 'call' and f.cname(n) == 'QXmppStunMessage::decode':
                return (decode_ok,) if decode_ok is not None else None
            if n['k'] == 'var' and n.get('name') == 'stunTransaction' and no_transaction is not None:
                return (not no_transaction,)
            if n['k'] == 'call' and f.cname(n) == 'QString::isEmpty' and n.get('obj') is not None and 'messagePassword' in f.fmt(n['obj'], inline=False) \
                    and password_empty is not None:
                return (password_empty,)
            if n['k'] == 'var' and n.get('name') == 'transport':
                return (True,)
            return None
        ev = cfgx.Evaluator(hd, {}, custom=custom)

        def evc(f, c, st):
            n = f.nodes[f.skip(c)]
            # pointer truthiness of stunTransaction
            v = ev.ev(c, st)
            return v
        return evc

    r1 = run.rule('C15.R1', 'no connectivity state changes and no response is sent when the keyed decode fails, or when the message is not for a '
                            'STUN-server transaction and no session password is set', floor=14)
    for label, evc in (('the keyed decode fails', mk(False, None, None)),
                       ('there is no session password (and no STUN-server transaction)', mk(None, True, True))):
        res = cfgx.sink_reachability(hd, evc, [i for i, _ in atoms])
        for i, what in atoms:
            run.instance(r1)
            if res[i] is not None:
                run.violation(r1, 'handleDatagram#unauthenticated#%s' % what.split(' (')[0].replace(' ', '-'), hd.loc(i),
                              '%s is reachable although %s' % (what, label), cfgx.describe_path(hd, res[i]))
            else:
                run.ok(r1, hd.loc(i), '%s unreachable when %s' % (what, label))
    # sanity: authenticated traffic reaches the atoms
    res = cfgx.sink_reachability(hd, mk(True, True, False), [i for i, _ in atoms])
    if sum(1 for i, _ in atoms if res[i] is not None) < len(atoms) - 1:
        raise AnalysisBroken('C15.R1: authenticated checks do not reach the state changes either (model does not fit the code)')

    r2 = run.rule('C15.R2', 'the password is chosen by message class with the same mask on both sides: requests are verified with the local password and '
                            'signed with the remote one, responses the other way round', floor=1)
    ws = prog.fn(ICP + '::writeStun')
    run.instance(r2)

    def cond_of(f, depth=0):
        """the class-dependent password choice made by f, or by a same-file helper it calls"""
        for g in [f] + prog.lambdas_in(f):
            for i, n in g.all_nodes('cond'):
                t = g.fmt(n['c'], inline=False)
                if '65280' in t or '0xff00' in t.lower():
                    return g.fmt(n['c'], inline=False), g.fmt(n['a'], inline=False).split('.')[-1], g.fmt(n['b'], inline=False).split('.')[-1]
        if depth < 2:
            for i, n in f.calls():
                if n.get('op'):
                    continue
                for g in prog.callee_fns(f, n):
                    if g.file == f.file and g.entry is not None and g.id != f.id and ('QString' in (n.get('t') or '') or any(True for _ in g.calls('QXmppStunMessage::decode'))):
                        r = cond_of(g, depth + 1)
                        if r:
                            return r
        return None
    rc, wc = cond_of(hd), cond_of(ws)
    if rc and wc and rc[1:] == ('remotePassword', 'localPassword') and wc[1:] == ('localPassword', 'remotePassword') \
            and rc[0].split('&')[-1] == wc[0].split('&')[-1]:
        run.ok(r2, hd.loc(), 'receive: (type & 0xFF00) ? remote : local; send: (type & 0xFF00) ? local : remote')
    else:
        run.violation(r2, 'ice-password-by-class', hd.loc(), 'password selection receive=%s send=%s is not symmetric' % (rc, wc))
    # decode is called with that password: its key argument is the local the class-dependent choice is stored in (in the handler, or in the helper that decodes)
    run.instance(r2)
    site = None
    for i, n in hd.calls('QXmppStunMessage::decode'):
        site = (hd, i)
    if site is None:
        for i, n in hd.calls():
            if not n.get('op'):
                for g in prog.callee_fns(hd, n):
                    if g.file == hd.file and g.entry is not None:
                        for j, m in g.calls('QXmppStunMessage::decode'):
                            site = (g, j)
    keyed = False
    if site:
        g, j = site
        key = g.nodes[j]['args'][1]
        # a key that is a parameter of the decoding helper: continue with what the handler passes for it
        kn = g.nodes[g.skip(key)]
        roots = [x for x in g.walk(key) if g.nodes[x]['k'] == 'var' and g.nodes[x].get('vk') == 'param']
        if g.id != hd.id and roots:
            pidx = g.nodes[roots[0]].get('pidx')
            for ci, cn_ in hd.calls():
                if not cn_.get('op') and any(h.id == g.id for h in prog.callee_fns(hd, cn_)) and pidx is not None and pidx < len(cn_.get('args', [])):
                    g, key = hd, cn_['args'][pidx]
        for x in g.walk(key):
            v = g.nodes[x]
            if v['k'] == 'var' and v.get('vk') == 'local':
                for d0 in g.all_defs(v['decl']):
                    dn0 = g.nodes[g.skip(d0)]
                    if dn0['k'] == 'cond' and ('65280' in g.fmt(dn0['c'], inline=False) or '0xff00' in g.fmt(dn0['c'], inline=False).lower()):
                        keyed = True
                    if dn0['k'] == 'call' and not dn0.get('op'):
                        for h in prog.callee_fns(g, dn0):
                            if h.file == g.file and h.entry is not None and cond_of(h, 1):
                                keyed = True
    if keyed:
        run.ok(r2, site[0].loc(site[1]), 'decode() is keyed with the password chosen by message class')
    else:
        run.violation(r2, 'handleDatagram#decode-key', site[0].loc(site[1]) if site else hd.loc(),
                      'the datagram is decoded with %s, which is not the password chosen by message class' % (site[0].fmt(site[0].nodes[site[1]]['args'][1], inline=False)[:60] if site else '?'))
    r3 = run.rule('C15.R3', 'a keyed decode cannot succeed without a verified MESSAGE-INTEGRITY (= C14.R3; R1 is only meaningful with it)', floor=1)
    run.instance(r3)
    dec = prog.fn('QXmppStunMessage::decode')
    bad, exits = C14.keyed_decode_verdict(prog, dec)
    run.paths += len(exits)
    if bad:
        st, path = sorted(bad.items(), key=lambda kv: len(kv[1]))[0]
        run.violation(r3, 'QXmppStunMessage::decode#keyed-without-integrity', dec.loc(),
                      'a binding request without MESSAGE-INTEGRITY decodes successfully under the session password and is processed as if authenticated',
                      cfgx.describe_path(dec, path))
    else:
        run.ok(r3, dec.loc(), 'every accepting path of the keyed decode passed the HMAC comparison')

    r4 = run.rule('C15.R4', 'a response reaches its check transaction only after the transaction id and the source address match; a mismatch is turned into an error', floor=2)
    reads = [(i, n) for i, n in hd.calls('QXmppStunTransaction::readStun') if 'pair' in hd.fmt(n['obj'], inline=False)]
    good = [i for i, n in reads if hd.nodes[hd.skip(n['args'][0])].get('name') == 'message']
    errs = [i for i, n in reads if hd.nodes[hd.skip(n['args'][0])].get('name') != 'message']
    if not good or not errs:
        raise AnalysisBroken('C15.R4: response handling (readStun(message) / readStun(error)) not found')

    def addr_mismatch(f, nid, st):
        bo = f.binop(nid)
        if bo and bo[0] in ('!=', '==') and ('remote.QXmppJingleCandidate::host()' in f.fmt(nid, inline=False) or 'remote.QXmppJingleCandidate::port()' in f.fmt(nid, inline=False)):
            t = f.fmt(nid, inline=False)
            if t.startswith('(p1') or t.startswith('(p2'):
                return (bo[0] == '!=',)
        n = f.nodes[nid]
        if n['k'] == 'call' and f.cname(n) == 'QXmppStunMessage::decode':
            return (True,)
        return None
    ev = cfgx.Evaluator(hd, {}, custom=addr_mismatch)
    res = cfgx.sink_reachability(hd, lambda f, c, st: ev.ev(c, st), good + errs)
    run.instance(r4)
    if any(res[g] is not None for g in good):
        run.violation(r4, 'handleDatagram#response-from-wrong-address', hd.loc(good[0]), 'a response from an unexpected address is fed to the check transaction as valid')
    elif not any(res[e] is not None for e in errs):
        run.violation(r4, 'handleDatagram#mismatch-not-reported', hd.loc(errs[0]), 'an address mismatch no longer fails the transaction')
    else:
        run.ok(r4, hd.loc(good[0]), 'source address mismatch: transaction fed an error, not the response')
    run.instance(r4)
    # the lookup of the checked pair compares the id of the pair's outstanding request with the id of the response (in a loop or in the
    # predicate of a find_if)
    by_id = False
    for g in [hd] + prog.lambdas_in(hd):
        for i in range(len(g.nodes)):
            bo = g.binop(i)
            if bo and bo[0] == '==':
                a, b = g.fmt(bo[1], inline=False), g.fmt(bo[2], inline=False)
                for x, y in ((a, b), (b, a)):
                    if 'transaction' in x and x.endswith('QXmppStunMessage::id()') and y.endswith('QXmppStunMessage::id()') and 'transaction' not in y:
                        by_id = True
    if by_id:
        run.ok(r4, hd.loc(good[0]), 'pair looked up by request id == response id; no pair => return')
    else:
        run.violation(r4, 'handleDatagram#response-id', hd.loc(good[0]), 'responses are not matched to a check by transaction id')

    r5 = run.rule('C15.R5', 'the active pair is selected and connected() is emitted only at the end of handleDatagram, for a nominated pair', floor=2)
    for f, i, k, h in field_uses(prog, ICP + '::activePair'):
        if k != 'write' or h == 'constructor initialiser':
            continue
        par = f.parents().get(i)
        pn = f.nodes[par] if par is not None else None
        if pn and pn['k'] == 'assign' and f.nodes[f.skip(pn['r'])]['k'] == 'null':
            continue
        run.instance(r5)
        top = top_function(prog, f)
        nominated = any('nominated' in f.fmt(c, inline=False) and p is True for c, p in f.atomic_assertions_at(i))
        if top.qname == IC + '::handleDatagram' and nominated:
            run.ok(r5, f.loc(i), 'activePair set in handleDatagram under pair->nominated')
        else:
            run.violation(r5, 'activePair-writer#%s' % top.qname, f.loc(i), 'the active pair is selected in %s%s' % (top.display(), '' if nominated else ' without the nominated check'))
    for f, i in prog.callers_by_qname(IC + '::connected'):
        if f.nodes[i]['k'] != 'call':
            continue
        run.instance(r5)
        nominated = any('nominated' in f.fmt(c, inline=False) and p is True for c, p in f.atomic_assertions_at(i))
        if top_function(prog, f).qname == IC + '::handleDatagram' and nominated:
            run.ok(r5, f.loc(i), 'connected() emitted under pair->nominated')
        else:
            run.violation(r5, 'connected-emitter#%s' % top_function(prog, f).qname, f.loc(i), 'connected() emitted outside the nominated-pair tail of handleDatagram')
    run.info(r5, hd.loc(), 'fallbackPair is set from non-STUN datagrams (unauthenticated by design; not among the property\'s state list)')

    r6_nomination(prog, run, hd, mk)
    r7_shared(prog, run)
    r8_fresh(prog, run, hd)
    r9_check_timer(prog, run)


def r6_nomination(prog, run, hd, mk):
    rid = run.rule('C15.R6', 'an authenticated USE-CANDIDATE request is honoured whatever state its pair is in: the pair is nominated at once, marked as nominating, '
                             'or a nominating triggered check is started (necessary for two honest agents to agree on the pair)', floor=5)
    st_enum = prog.enum('CandidatePair::State', required=False) or prog.enum('QXmppIceComponent::CandidatePair::State', required=False)
    if not st_enum:
        cands = [e for e in prog.enums.values() if e['qname'].endswith('CandidatePair::State')] if hasattr(prog, 'enums') else []
        st_enum = cands[0] if cands else None
    if not st_enum:
        raise AnalysisBroken('C15.R6: enum CandidatePair::State not found')
    sinks = {}
    for i, n in hd.all_nodes('assign'):
        l = hd.nodes[hd.skip(n['l'])]
        if l['k'] == 'mem' and l['f'] == 'CandidatePair::nominated' and hd.const_value(n['r']) == ('bool', True):
            sinks[i] = 'nominated = true'
        if l['k'] == 'mem' and l['f'] == 'CandidatePair::nominating' and 'useCandidate' in hd.fmt(n['r'], inline=False):
            sinks[i] = 'nominating |= useCandidate'
    for i, n in hd.calls(ICP + '::performCheck'):
        if len(n['args']) > 1 and 'useCandidate' in hd.fmt(n['args'][1], inline=False):
            sinks[i] = 'performCheck(pair, … || useCandidate)'
    for e in st_enum['enumerators']:
        run.instance(rid)
        qn = st_enum['qname'].rsplit('::', 1)[0] + '::' + e['name']

        def custom(f, nid, st, qn=qn):
            n = f.nodes[nid]
            if n['k'] == 'call' and f.cname(n) == 'QXmppStunMessage::decode':
                return (True,)
            if n['k'] == 'call' and f.cname(n).endswith('CandidatePair::state'):
                return (('enum', qn),)
            if n['k'] == 'mem' and n['f'] == 'QXmppStunMessage::useCandidate':
                return (True,)
            if n['k'] == 'call' and f.cname(n) == 'QString::isEmpty' and n.get('obj') is not None and ('remoteUser' in f.fmt(n['obj'], inline=False) or 'messagePassword' in f.fmt(n['obj'], inline=False)):
                return (False,)
            return None
        ev = cfgx.Evaluator(hd, {}, custom=custom)
        visits = {}
        cfgx.explore(hd, (), None, lambda f, c, st: ev.ev(c, st), record_visits=visits)
        reached = [what for i, what in sinks.items() if hd.pos(i) and hd.pos(i)[0] in visits]
        # "nominating" is promoted to "nominated" only when the pair's pending check transaction succeeds: a pair that has already
        # succeeded has no pending transaction, so only an immediate nomination (or a new nominating check) honours the request there
        if e['name'].startswith('Succeeded'):
            reached = [w for w in reached if not w.startswith('nominating')]
        # the case label of this state must exist at all (otherwise the switch would fall through silently)
        if reached:
            run.ok(rid, hd.loc(), 'pair in %s: %s' % (e['name'], reached[0]))
        else:
            run.violation(rid, 'handleDatagram#nomination-lost#%s' % e['name'], hd.loc(),
                          'a USE-CANDIDATE request for a pair in %s neither nominates the pair, nor marks it as nominating, nor starts a nominating check: the '
                          'controlled agent never selects the pair the controlling agent nominated' % e['name'])


def r7_shared(prog, run):
    rid = run.rule('C15.R7', 'the integrity decision the ICE handler relies on compares the whole MAC (= C14.R8), and every datagram handed to the handler has exactly the '
                             'length of the datagram that was received', floor=2)
    dec = prog.fn('QXmppStunMessage::decode')
    sub = type(run)(run.prop, run.tier, run.seed)
    C14.r8(prog, sub, dec)
    run.instance(rid)
    if sub.violations:
        v = sub.violations[0]
        run.violation(rid, 'QXmppStunMessage::decode#partial-mac', v['site'], 'connectivity checks are authenticated by a partial MAC comparison: ' + v['what'])
    else:
        run.ok(rid, dec.loc(), 'MESSAGE-INTEGRITY is compared in full')
    rr = prog.fn('QXmppUdpTransport::readyRead')
    emits = [i for i, n in rr.calls() if rr.cname(n).endswith('::datagramReceived')]

    def sized_read_of(g, pidx=None):
        """(read call id, True) when g reads a datagram into a buffer that is resized to the pending size right before (same block); the buffer is g's parameter pidx
        when given.  (read id, False) when it reads without that; None when it does not read"""
        rds = [i for i, n in g.calls() if g.cname(n).endswith('::readDatagram')]
        if not rds:
            return None
        for i, n in g.calls():
            if g.cname(n).endswith('::resize') and n.get('obj') is not None and n.get('args') and 'pendingDatagramSize' in g.fmt(n['args'][0], inline=True):
                o = g.nodes[g.skip(n['obj'])]
                if pidx is not None and not (o.get('vk') == 'param' and o.get('pidx') == pidx):
                    continue
                if g.node_dominates(i, rds[0]) and g.pos(i) and g.pos(rds[0]) and g.pos(i)[0] == g.pos(rds[0])[0]:
                    return rds[0], True
        return rds[0], False
    # the read: in the slot itself, or in a same-file helper that is handed the buffer by reference
    reads = [i for i, n in rr.calls() if rr.cname(n).endswith('::readDatagram')]
    helper_reads = []
    if not reads:
        for i, n in rr.calls():
            if n.get('op'):
                continue
            for g in prog.callee_fns(rr, n):
                if g.entry is None or g.file != rr.file:
                    continue
                for k, a in enumerate(n.get('args', [])):
                    an = rr.nodes[rr.skip(a)]
                    if an['k'] == 'var' and 'QByteArray' in (an.get('t') or ''):
                        r_ = sized_read_of(g, k)
                        if r_ is not None:
                            helper_reads.append((i, an.get('decl'), r_[1]))
    if not emits or not (reads or helper_reads):
        raise AnalysisBroken('C15.R7: readDatagram (also through a helper) / datagramReceived not found in QXmppUdpTransport::readyRead')
    run.instance(rid)
    buf = rr.nodes[rr.skip(rr.nodes[emits[0]]['args'][0])]
    ok = False
    why = 'the emitted buffer is not sized per datagram'
    if buf['k'] == 'var' and helper_reads:
        for i, decl, sized in helper_reads:
            same_block = rr.pos(i) and rr.pos(emits[0]) and rr.pos(i)[0] == rr.pos(emits[0])[0]
            if decl == buf.get('decl') and sized and rr.node_dominates(i, emits[0]) and same_block:
                ok = True
    elif buf['k'] == 'var':
        # (a) resized to the pending size on every iteration, before the read
        for i, n in rr.calls():
            if rr.cname(n).endswith('::resize') and n.get('obj') is not None and rr.nodes[rr.skip(n['obj'])].get('decl') == buf.get('decl'):
                same_block = rr.pos(i) and rr.pos(reads[0]) and rr.pos(i)[0] == rr.pos(reads[0])[0]
                if 'pendingDatagramSize' in rr.fmt(n['args'][0], inline=True) and rr.node_dominates(i, reads[0]) and same_block:
                    ok = True
                elif 'pendingDatagramSize' in rr.fmt(n['args'][0], inline=True):
                    why = 'the buffer is resized only on some iterations (kept when the next datagram is shorter): the tail of the previous datagram is delivered with it'
        # (b) declared inside the loop with the datagram size
        d = rr.defs().get(buf.get('decl'))
        if d and d.get('init') is not None and 'pendingDatagramSize' in rr.fmt(d['init'], inline=True) and rr.pos(d['node']) and rr.pos(d['node'])[0] == rr.pos(reads[0])[0]:
            ok = True
    else:
        t = rr.fmt(rr.nodes[emits[0]]['args'][0], inline=True)
        if ('left(' in t or 'first(' in t or 'chopped(' in t) and 'readDatagram' in t:
            ok = True     # emitted as buffer.left(<bytes read>)
    if ok:
        run.ok(rid, rr.loc(emits[0]), 'each datagram is delivered with its own length')
    else:
        run.violation(rid, 'QXmppUdpTransport::readyRead#datagram-length', rr.loc(emits[0]), why)
    # the capacity offered to readDatagram is the size of the pending datagram (QUdpSocket silently drops what does not fit)
    nreads = 0
    for f in prog.fns.values():
        if f.entry is None or not f.file.endswith('QXmppStun.cpp'):
            continue
        for i, n in f.calls():
            if not f.cname(n).endswith('::readDatagram') or len(n.get('args', [])) < 2:
                continue
            nreads += 1
            run.instance(rid)
            cap = n['args'][1]
            fits = 'pendingDatagramSize' in f.fmt(cap, inline=True)
            objs = [f.nodes[j].get('decl') for a in n['args'][:2] for j in f.walk(a) if f.nodes[j]['k'] == 'var' and f.nodes[j].get('vk') in ('local', 'param')]
            for j, m in f.calls():
                if f.cname(m).endswith('::resize') and m.get('obj') is not None and f.nodes[f.skip(m['obj'])].get('decl') in objs and m.get('args') \
                        and 'pendingDatagramSize' in f.fmt(m['args'][0], inline=True) and f.node_dominates(j, i) and f.pos(j) and f.pos(i) and f.pos(j)[0] == f.pos(i)[0]:
                    fits = True
            for dcl in objs:
                d = f.defs().get(dcl)
                if d and d.get('init') is not None and 'pendingDatagramSize' in f.fmt(d['init'], inline=True) and f.pos(d['node']) and f.pos(i) and f.pos(d['node'])[0] == f.pos(i)[0]:
                    fits = True
            if fits:
                run.ok(rid, f.loc(i), 'the read buffer has the size of the pending datagram')
            else:
                run.violation(rid, '%s#datagram-truncated' % f.outer_name(), f.loc(i),
                              '%s offers readDatagram a capacity (%s) that is not the size of the pending datagram: QUdpSocket discards the rest of a longer datagram, so '
                              'application data larger than the buffer arrives cut' % (f.display()[:50], f.fmt(cap, inline=False)[:40]))
    if not nreads:
        raise AnalysisBroken('C15.R7: no readDatagram call found')


def r8_fresh(prog, run, hd):
    rid = run.rule('C15.R8', 'every datagram is decoded into a fresh message object: decode() stores attributes as it parses (before it validates them) and never clears what an '
                             'earlier call stored, so a long-lived target keeps attributes of a packet that was refused - USE-CANDIDATE, ICE-CONTROLLING or an address of an '
                             'unauthenticated packet would then count for the next authenticated one', floor=1)
    sites = []          # (fn, call node, target expression in that fn)
    for i, n in hd.calls('QXmppStunMessage::decode'):
        sites.append((hd, i, n.get('obj')))
    for i, n in hd.calls():
        if n.get('op'):
            continue
        for g in prog.callee_fns(hd, n):
            if g.file != hd.file or g.entry is None:
                continue
            for j, m in g.calls('QXmppStunMessage::decode'):
                o = g.nodes[g.skip(m['obj'])] if m.get('obj') is not None else {}
                if o.get('k') == 'var' and o.get('vk') == 'param' and o.get('pidx') is not None and o['pidx'] < len(n.get('args', [])):
                    sites.append((hd, i, n['args'][o['pidx']]))       # the helper decodes into what the handler hands it
                else:
                    sites.append((g, j, m.get('obj')))
    if not sites:
        raise AnalysisBroken('C15.R8: no decode() target found for handleDatagram')
    for f, i, tgt in sites:
        run.instance(rid)
        t = f.nodes[f.skip(tgt)] if tgt is not None else {}
        ok = False
        why = f.fmt(tgt)[:60] if tgt is not None else '?'
        if t.get('k') == 'var' and t.get('vk') == 'local':
            d = f.defs().get(t['decl']) or {}
            init = f.nodes[f.skip(d['init'])] if d.get('init') is not None else None
            if d.get('ref'):
                # a reference: fresh only if it is bound to a fresh local (not to a member or anything reachable from this)
                ok = init is not None and init['k'] == 'var' and init.get('vk') == 'local' and not (f.defs().get(init['decl']) or {}).get('ref')
                why = 'a reference to %s' % (f.fmt(d['init'])[:50] if d.get('init') is not None else '?')
            else:
                ok = 'static' not in (d.get('storage') or '') and not d.get('static')
        if ok:
            run.ok(rid, f.loc(i), 'decode() fills a message object local to the handling of this datagram')
        else:
            run.violation(rid, 'handleDatagram#decode-target-long-lived', f.loc(i),
                          'the datagram is decoded into %s, which outlives the handling of one datagram: attributes stored by decode() for a packet that was then refused '
                          '(no or wrong MESSAGE-INTEGRITY) are still set when the next, authenticated packet is processed' % why)


# --------------------------------------------------------------------------- R9: the periodic checks go on until a pair is nominated
def r9_check_timer(prog, run):
    rid = run.rule('C15.R9', 'the component\'s periodic check timer is stopped only once a nominated pair exists or when the component is closed: candidates that arrive later '
                             '(trickled transport-info) are only ever checked by a later tick, so agents that exchanged credentials and candidates would otherwise never connect', floor=2)
    rec = prog.record('QXmppIceComponentPrivate')
    timers = [fl for fl in rec['fields'] if (fl.get('t') or '').replace(' ', '') == 'QTimer*']
    if len(timers) != 1:
        raise AnalysisBroken('C15.R9: the check timer of QXmppIceComponentPrivate was not identified (%d QTimer members)' % len(timers))
    tq = timers[0].get('qname') or 'QXmppIceComponentPrivate::' + timers[0]['name']
    active = [fl.get('qname') or 'QXmppIceComponentPrivate::' + fl['name'] for fl in rec['fields']
              if 'CandidatePair' in (fl.get('t') or '') and (fl.get('t') or '').rstrip().endswith('*') and '<' not in fl['t']]
    nstop = 0
    # a small member of the private class that only stops the timer stands for the stop at its call sites
    stoppers = {}
    for f in prog.fns.values():
        if f.entry is not None and f.file.endswith('QXmppStun.cpp') and (f.record or '') == 'QXmppIceComponentPrivate' and not f.is_lambda and len(list(f.calls())) <= 2 \
                and any(f.cname(n) == 'QTimer::stop' and n.get('obj') is not None and f.nodes[f.skip(n['obj'])].get('f') == tq for _, n in f.calls()):
            stoppers[f.id] = f
    for f in prog.fns.values():
        if f.entry is None or not f.file.endswith('QXmppStun.cpp') or f.id in stoppers:
            continue
        for i, n in f.calls():
            direct = f.cname(n) == 'QTimer::stop' and n.get('obj') is not None and f.nodes[f.skip(n['obj'])].get('f') == tq
            via = any(g.id in stoppers for g in prog.callee_fns(f, n))
            if not (direct or via):
                continue
            nstop += 1
            run.instance(rid)
            nominated = any(p is True and 'nominated' in f.fmt(c, inline=True) for c, p in f.atomic_assertions_at(i))
            teardown = any(f.nodes[f.skip(a['l'])].get('f') in active and f.nodes[f.skip(a['r'])]['k'] == 'null' for _, a in f.all_nodes('assign'))
            if nominated:
                run.ok(rid, f.loc(i), 'stopped behind "pair is nominated"')
            elif teardown:
                run.ok(rid, f.loc(i), 'stopped in the teardown (%s forgets the active pair)' % f.name)
            else:
                run.violation(rid, '%s#check-timer-stopped-early' % f.outer_name(), f.loc(i),
                              '%s stops the periodic check timer on a path where no pair has been nominated: remote candidates learnt afterwards are paired but never checked, and '
                              'connectToHost() does not restart the timer' % f.display()[:50])
    if nstop < 2:
        raise AnalysisBroken('C15.R9: stop() sites of the check timer not found')
