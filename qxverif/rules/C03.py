"""C03 — stream framing is independent of how the byte stream is split into reads (structural clause):
bytes are turned into text in a way that cannot depend on where a read ends, and all receive state is
reset when a stream (re)starts."""
from ..build import AnalysisBroken
from ..callgraph import connects
from ..effects import classify_use
from .. import cfgx  # noqa: F401

UNITS = 'all'      # R7 looks at every receiver of a parsed element; R1-R6 are anchored in base/Stream.cpp
SOCK = 'QXmpp::Private::XmppSocket'
STATELESS = {'QString::fromUtf8', 'QString::fromLatin1', 'QString::fromLocal8Bit', 'QString::fromStdString', 'QString::fromUtf16',
             'QString::QString', 'QLatin1String::QLatin1String', 'QString::fromRawData', 'QTextCodec::toUnicode'}
READS = {'QIODevice::readAll', 'QIODevice::read', 'QIODevice::readLine', 'QIODevice::peek'}


def _derives_from_read(f, nid, depth=0):
    """the expression contains, or is a local initialised from, a socket read"""
    if depth > 6:
        return None
    for j in f.walk(nid):
        n = f.nodes[j]
        if n['k'] == 'call' and f.cname(n) in READS:
            return j
        if n['k'] == 'var' and n.get('vk') == 'local' and not n.get('outer'):
            for d in f.all_defs(n['decl']):
                if d != nid:
                    r = _derives_from_read(f, d, depth + 1)
                    if r is not None:
                        return r
    return None


def run(prog, run, only_restart_rules=False):
    run.explanation = ('Dataflow in every slot connected to readyRead of the XMPP socket: the bytes of one read must not reach a stateless '
                       'byte-to-text decoder; they may only be appended to a member accumulator that is decoded up to a computed character boundary '
                       '(or pass through a stateful decoder member). Every stream restart clears all receive-state members. Necessary for '
                       'split-independence (a multi-byte character cut by a read boundary); the DOM/regex framing itself is not decided.')
    run.assume('behaviour of QRegularExpression / QDomDocument on the accumulated text for every partition is not decided (runtime strings)')
    r1 = run.rule('C03.R1', 'no read of the socket reaches a stateless decoder directly; decoding happens from a member accumulator up to a computed '
                            'boundary, or through a stateful decoder member', floor=1)
    r2 = run.rule('C03.R2', 'every receive-state member (text buffer, cached stream header, undecoded bytes / decoder) is cleared in both '
                            'stream-restart slots before started() is emitted', floor=4)
    cons = [c for c in connects(prog) if c['fn'].qname == SOCK + '::setSocket']
    ready = [c for c in cons if c['signal']['qname'] == 'QIODevice::readyRead']
    if not ready:
        raise AnalysisBroken('C03: no slot connected to QIODevice::readyRead in XmppSocket::setSocket')
    rec = prog.record(SOCK)
    fields = {fl['qname']: fl for fl in rec['fields']}
    accumulators = set()
    for c in ready:
        slots = c['target'] if c['kind'] == 'lambda' else [prog.fns.get(c['target']['usr'])]
        for slot in slots:
            if slot is None:
                raise AnalysisBroken('C03: readyRead slot not analysable')
            fns = prog.closure(slot)
            reads = [(f, i) for f in fns for i, n in f.calls() if f.cname(n) in READS]
            if not reads:
                raise AnalysisBroken('C03.R1: readyRead slot %s does not read the socket' % slot.display())
            run.instance(r1)
            problems = []
            ok_notes = []
            for f in fns:
                # member accumulators fed by a read
                for i, n in f.calls():
                    s = f.sym(n)
                    if s and s['name'] in ('append', 'operator+=', 'push_back', 'insert') and n.get('obj') is not None:
                        o = f.nodes[f.skip(n['obj'])]
                        if o['k'] == 'mem' and o['f'].startswith(SOCK + '::') and any(_derives_from_read(f, a) is not None for a in n.get('args', [])):
                            accumulators.add(o['f'])
                for i, n in f.all_nodes('assign'):
                    l = f.nodes[f.skip(n['l'])]
                    if l['k'] == 'mem' and l['f'].startswith(SOCK + '::') and _derives_from_read(f, n['r']) is not None and n['op'] in ('+=', '='):
                        accumulators.add(l['f'])
                for i, n in f.calls():
                    cn = f.cname(n)
                    s = f.sym(n)
                    if cn in STATELESS or (n['k'] == 'construct' and n.get('cls') == 'QString' and n.get('args')):
                        for a in n.get('args', []):
                            src = _derives_from_read(f, a)
                            if src is not None:
                                problems.append((f, i, 'the bytes of a single read (%s) are decoded by the stateless %s: a multi-byte character '
                                                       'split across two reads is corrupted' % (f.fmt(src)[:50], cn)))
                            else:
                                # decoding from a member accumulator: needs an explicit, computed length
                                txt = f.fmt(a, inline=False)
                                mem = [m for m in f.walk(a) if f.nodes[m]['k'] == 'mem' and f.nodes[m]['f'] in accumulators]
                                if mem:
                                    args = [x for x in n.get('args', []) if f.nodes[x]['k'] != 'defarg']
                                    whole = len(args) == 1 and f.nodes[f.skip(args[0])]['k'] == 'mem'
                                    inspects = any(f.sym(c2) and f.sym(c2)['name'] in ('at', 'operator[]', 'constData', 'data', 'back', 'endsWith')
                                                   and c2.get('obj') is not None and f.nodes[f.skip(c2['obj'])].get('f') in accumulators
                                                   for _, c2 in f.calls()) or any(
                                        m2['k'] == 'index' for m2 in f.nodes)
                                    if whole or not inspects:
                                        problems.append((f, i, 'the whole accumulator %s is decoded statelessly on every read (no complete-character boundary is computed)'
                                                         % f.nodes[mem[0]]['f'].split('::')[-1]))
                                    else:
                                        ok_notes.append('decodes %s up to a computed boundary' % f.nodes[mem[0]]['f'].split('::')[-1])
                    # stateful decoders
                    if s and s.get('record') in ('QTextDecoder', 'QStringDecoder') and n.get('obj') is not None:
                        o = f.nodes[f.resolve(n['obj'])]
                        base = [m for m in f.walk(n['obj']) if f.nodes[m]['k'] == 'mem' and f.nodes[m]['f'].startswith(SOCK + '::')]
                        if base:
                            accumulators.add(f.nodes[base[0]]['f'])
                            ok_notes.append('stateful decoder member %s' % f.nodes[base[0]]['f'].split('::')[-1])
                        else:
                            problems.append((f, i, 'a decoder that is not a member loses its state between reads'))
            if problems:
                for f, i, what in problems:
                    run.violation(r1, '%s::readyRead-slot#stateless-decode' % SOCK, f.loc(i), what)
            elif ok_notes:
                run.ok(r1, slot.loc(), '; '.join(sorted(set(ok_notes))))
            else:
                raise AnalysisBroken('C03.R1: no decoding found on the path from readAll() in %s' % slot.display())

    # ---- R2
    pd = prog.fn(SOCK + '::processData')
    state = set(accumulators)
    for f in prog.closure(pd):
        for i, n in enumerate(f.nodes):
            if n['k'] == 'mem' and n['f'].startswith(SOCK + '::') and n['f'] in fields:
                t = fields[n['f']]['t']
                if classify_use(f, i)[0] in ('write', 'addr') and any(x in t for x in ('QString', 'QByteArray', 'QTextDecoder', 'QStringDecoder')):
                    state.add(n['f'])
    if len(state) < 2:
        raise AnalysisBroken('C03.R2: receive-state members not found (got %s)' % sorted(state))
    restart = [c for c in cons if c['signal']['qname'] in ('QAbstractSocket::connected', 'QSslSocket::encrypted')]
    if len(restart) < 2:
        raise AnalysisBroken('C03.R2: restart slots (connected / encrypted) not found')
    def clear_sites(fn, fld):
        out = []
        for i, n in fn.calls():
            sy = fn.sym(n)
            if n.get('obj') is not None and fn.nodes[fn.skip(n['obj'])].get('f') == fld and sy and sy['name'] in ('clear', 'reset', 'resetState', 'truncate'):
                out.append(i)
            if n.get('obj') is not None and sy and sy['name'] in ('reset', 'resetState') and any(fn.nodes[m].get('f') == fld for m in fn.walk(n['obj'])):
                out.append(i)
        for i, n in fn.all_nodes('assign'):
            if fn.nodes[fn.skip(n['l'])].get('f') == fld:
                out.append(i)
        return out

    for c in restart:
        for slot in (c['target'] if c['kind'] == 'lambda' else []):
            # the slot may delegate the restart to a helper of the same class (one level): then the helper is the function that is checked,
            # provided the slot calls it
            body = slot
            emits = [i for i, n in body.calls(SOCK + '::started')]
            if not emits:
                helpers = [g for i, n in slot.calls() for g in prog.callee_fns(slot, n) if (g.record or '') == SOCK and any(True for _ in g.calls(SOCK + '::started'))]
                if helpers:
                    body = helpers[0]
                    emits = [i for i, n in body.calls(SOCK + '::started')]
            if not emits:
                raise AnalysisBroken('C03.R2: %s does not emit started()' % slot.display())
            for fld in sorted(state):
                run.instance(r2)
                clears = clear_sites(body, fld)
                # a call of a member helper that clears the field on every path counts as a clear at the call site
                for ci, cn_ in body.calls():
                    for h in prog.callee_fns(body, cn_):
                        if h.entry is None or (h.record or '') != SOCK or h.id == body.id:
                            continue
                        hc = clear_sites(h, fld)
                        if hc and any(h.pos(x) and (h.pos(x)[0] == h.entry or ('b', h.pos(x)[0]) in h.pdom().get(('b', h.entry), set())) for x in hc):
                            clears.append(ci)
                if clears and all(any(body.node_dominates(cl, e) for cl in clears) for e in emits):
                    run.ok(r2, body.loc(), '%s cleared before started() in the %s slot%s' % (fld.split('::')[-1], c['signal']['qname'].split('::')[-1], '' if body is slot else ' (through %s)' % body.name))
                else:
                    run.violation(r2, '%s::%s-slot#keeps:%s' % (SOCK, c['signal']['qname'].split('::')[-1], fld.split('::')[-1]), body.loc(),
                                  'a new stream starts (%s) without clearing %s: leftovers of the previous stream are prepended to the new one'
                                  % (c['signal']['qname'].split('::')[-1], fld.split('::')[-1]))

    if only_restart_rules:
        return          # C10 shares R1/R2 (receive state is per connection)
    r3_chunk(prog, run, ready)
    r4_classes(prog, run, ready, accumulators)
    r5_order(prog, run)
    r6_discard(prog, run)
    r7_dom_structure(prog, run)
    r8_keepalive(prog, run)
    r9_close_after_elements(prog, run)


APPENDS = ('append', 'operator+=', 'push_back')


def _always(fn, nid):
    pos = fn.pos(nid)
    return bool(pos) and (pos[0] == fn.entry or ('b', pos[0]) in fn.pdom().get(('b', fn.entry), set()))


def r3_chunk(prog, run, ready):
    """split-independence needs the chunk of one read to influence the receive path only through the accumulators"""
    rid = run.rule('C03.R3', 'the chunk delivered by one read is only ever appended, unconditionally, to a member accumulator: no decision, log or event of the '
                             'receive path looks at the chunk itself (what is decided from the accumulated text cannot depend on where reads end)', floor=2)
    pd = prog.fn(SOCK + '::processData')
    uses = [(i, n) for i, n in enumerate(pd.nodes) if n['k'] == 'var' and n.get('vk') == 'param' and n.get('pidx') == 0]
    par = pd.parents()
    run.instance(rid)
    appended = []
    other = []
    for i, n in uses:
        # climb through implicit conversions
        j = i
        p = par.get(j)
        while p is not None and pd.nodes[p]['k'] in ('icast', 'cast', 'construct') and len(pd.children(p)) == 1:
            j, p = p, par.get(p)
        pn = pd.nodes[p] if p is not None else None
        s = pd.sym(pn) if pn is not None and pn['k'] == 'call' else None
        if pn is not None and pn['k'] == 'call' and s and s['name'] in APPENDS and pn.get('obj') is not None and \
                pd.nodes[pd.skip(pn['obj'])]['k'] == 'mem' and pd.nodes[pd.skip(pn['obj'])]['f'].startswith(SOCK + '::') and j in pn.get('args', []):
            appended.append(p)
        elif pn is not None and pn['k'] == 'assign' and pn['op'] == '+=' and pd.nodes[pd.skip(pn['l'])]['k'] == 'mem' and pd.skip(pn['r']) == pd.skip(j):
            appended.append(p)
        else:
            other.append(i)
    if not appended:
        run.violation(rid, 'processData#chunk-not-accumulated', pd.loc(), 'the text of a read is not appended to a member accumulator')
    elif other:
        run.violation(rid, 'processData#looks-at-chunk', pd.loc(other[0]),
                      'processData inspects the text of the single read (%s) instead of the accumulated buffer: the outcome depends on where the read ended'
                      % pd.fmt(par.get(other[0], other[0]), inline=False)[:70])
    elif not all(_always(pd, a) for a in appended):
        run.violation(rid, 'processData#conditional-append', pd.loc(appended[0]), 'on some path the text of a read is dropped instead of being appended to the buffer')
    else:
        first_branch_ok = all(pd.pos(a)[0] == pd.entry or all(pd.node_dominates(a, r) for r, _ in pd.returns()) for a in appended)
        if first_branch_ok:
            run.ok(rid, pd.loc(appended[0]), 'processData: the chunk is appended to %s before anything else and never used again' % pd.fmt(pd.nodes[appended[0]].get('obj', appended[0]), inline=False)[:40])
        else:
            run.violation(rid, 'processData#conditional-append', pd.loc(appended[0]), 'a return precedes the append of the chunk')
    # the bytes of a read in the readyRead slot
    for c in ready:
        for slot in (c['target'] if c['kind'] == 'lambda' else [prog.fns.get(c['target']['usr'])]):
            run.instance(rid)
            par = slot.parents()
            reads = [i for i, n in slot.calls() if slot.cname(n) in READS]
            bad = []
            good = []
            for r in reads:
                j = r
                p = par.get(j)
                while p is not None and slot.nodes[p]['k'] in ('icast', 'cast', 'construct') and len(slot.children(p)) == 1:
                    j, p = p, par.get(p)
                pn = slot.nodes[p] if p is not None else None
                s = slot.sym(pn) if pn is not None and pn['k'] == 'call' else None
                if pn is not None and pn['k'] == 'call' and s and s['name'] in APPENDS and pn.get('obj') is not None and slot.nodes[slot.skip(pn['obj'])]['k'] == 'mem':
                    (good if _always(slot, p) else bad).append(p)
                elif pn is not None and pn['k'] == 'call' and s and s.get('record') in ('QTextDecoder', 'QStringDecoder'):
                    good.append(p)   # stateful decoder member (checked by R1)
                else:
                    bad.append(r)
            if bad or not good:
                run.violation(rid, '%s::readyRead-slot#chunk-use' % SOCK, slot.loc((bad or reads)[0]),
                              'the bytes of a read are used other than by appending them unconditionally to the byte accumulator (%s)'
                              % slot.fmt(par.get((bad or reads)[0], (bad or reads)[0]), inline=False)[:70])
            else:
                run.ok(rid, slot.loc(good[0]), 'readyRead: the bytes of a read are only appended to the byte accumulator')


def r4_classes(prog, run, ready, accumulators):
    """if the complete-character boundary is computed by comparing bytes with constants, those comparisons must tell the five UTF-8 byte classes apart"""
    rid = run.rule('C03.R4', 'a hand-written complete-character boundary distinguishes the UTF-8 byte classes (ASCII, continuation, 2-, 3- and 4-byte lead): '
                             'the bytes are only compared with constants, so two bytes no comparison separates are treated alike', floor=0)
    REPR = {'ASCII': 0x41, 'continuation': 0xA9, '2-byte lead': 0xC3, '3-byte lead': 0xE2, '4-byte lead': 0xF0}
    for c in ready:
        for slot0 in (c['target'] if c['kind'] == 'lambda' else [prog.fns.get(c['target']['usr'])]):
            # where the bytes of an accumulator are looked at: the slot itself, or a same-file helper that is handed the accumulator
            scan = [(slot0, lambda f, o: f.nodes[f.skip(o)].get('f') in accumulators)]
            for i, n in slot0.calls():
                if n.get('op'):
                    continue
                for k, a in enumerate(n.get('args', [])):
                    if slot0.nodes[slot0.skip(a)].get('f') in accumulators:
                        for g in prog.callee_fns(slot0, n):
                            if (g.file == slot0.file or '/src/' in g.file) and g.entry is not None and k < len(g.params):
                                scan.append((g, lambda f, o, k=k: f.nodes[f.skip(o)].get('vk') == 'param' and f.nodes[f.skip(o)].get('pidx') == k))
            slot, is_acc = scan[0]
            byte_reads = []
            for fn_, pred_ in scan:
                br = [i for i, n in fn_.calls() if (fn_.sym(n) or {}).get('name') in ('at', 'operator[]') and n.get('obj') is not None and pred_(fn_, n['obj'])]
                if br:
                    slot, is_acc, byte_reads = fn_, pred_, br
            par = slot.parents()
            if not byte_reads:
                run.info(rid, slot.loc(), 'no byte-wise boundary computation (stateful decoder or other scheme): rule not applicable')
                continue
            # a helper that computes how many bytes to hold back must be able to say 0..3: a bool result that the caller uses as a number collapses 2 and 3 to 1
            if slot.id != slot0.id and (slot.raw.get('ret') or '').replace('const ', '') == 'bool':
                for i, n in slot0.calls():
                    if slot.id in [g.id for g in prog.callee_fns(slot0, n)]:
                        up = slot0.parents().get(i)
                        while up is not None and slot0.nodes[up]['k'] in ('icast', 'cast', 'paren'):
                            up = slot0.parents().get(up)
                        bo = slot0.binop(up) if up is not None else None
                        if bo and bo[0] in ('-', '+', '*'):
                            run.instance(rid)
                            run.violation(rid, '%s::readyRead-slot#held-back-count-is-bool' % SOCK, slot.loc(),
                                          '%s computes from the last bytes how much of the buffer is an unfinished character, but returns bool; the caller uses the result as a '
                                          'number (%s), so two or three pending bytes count as one: a 3- or 4-byte character cut after its second / third byte is decoded '
                                          'incomplete' % (slot.name, slot0.fmt(up, inline=False)[:60]))
            preds = []
            undecidable = []

            def const_of(f, nid):
                v = f.const_value(nid)
                return v[1] if v and v[0] in ('int', 'char') else None

            def climb(f, nid, mask, depth=0):
                """follow a byte value upwards: casts, & const, local variable, comparison with a constant"""
                p = par.get(nid)
                if p is None or depth > 8:
                    undecidable.append(nid)
                    return
                pn = f.nodes[p]
                if pn['k'] in ('icast', 'cast') or (pn['k'] == 'construct' and len(f.children(p)) == 1):
                    return climb(f, p, mask, depth + 1)
                bo = f.binop(p)
                if bo and bo[0] == '&':
                    other = bo[2] if f.skip(bo[1]) == f.skip(nid) or bo[1] == nid else bo[1]
                    cv = const_of(f, other)
                    if cv is None:
                        undecidable.append(p)
                        return
                    return climb(f, p, (mask & cv), depth + 1)
                if bo and bo[0] in ('<', '<=', '>', '>=', '==', '!='):
                    left = (f.skip(bo[1]) == f.skip(nid) or bo[1] == nid)
                    cv = const_of(f, bo[2] if left else bo[1])
                    if cv is None:
                        undecidable.append(p)
                        return
                    op = bo[0] if left else {'<': '>', '>': '<', '<=': '>=', '>=': '<=', '==': '==', '!=': '!='}[bo[0]]
                    preds.append((mask, op, cv, p))
                    return
                if pn['k'] == 'decl':
                    for d in pn['decls']:
                        if d.get('init') is not None and f.skip(d['init']) == f.skip(nid):
                            for j, m in enumerate(f.nodes):
                                if m['k'] == 'var' and m.get('decl') == d['var']:
                                    climb(f, j, mask, depth + 1)
                            return
                undecidable.append(p)

            for b in byte_reads:
                climb(slot, b, 0xFF)
            run.instance(rid)
            if undecidable:
                run.info(rid, slot.loc(undecidable[0]), 'bytes of the accumulator are used other than in comparisons with constants (%s): the class partition is not decidable '
                                                         'by this rule' % slot.fmt(undecidable[0], inline=False)[:60])
                run.ok(rid, slot.loc(), 'not applicable (bytes flow into arithmetic or calls)', nontrivial=False)
                continue

            def holds(b, pr):
                mask, op, cv, _ = pr
                v = b & mask
                return {'<': v < cv, '<=': v <= cv, '>': v > cv, '>=': v >= cv, '==': v == cv, '!=': v != cv}[op]
            merged = []
            names = list(REPR)
            for a in range(len(names)):
                for b2 in range(a + 1, len(names)):
                    if all(holds(REPR[names[a]], pr) == holds(REPR[names[b2]], pr) for pr in preds):
                        merged.append((names[a], names[b2]))
            if merged:
                a, b2 = merged[-1]
                run.violation(rid, '%s::readyRead-slot#byte-classes#%s=%s' % (SOCK, a.replace(' ', '-'), b2.replace(' ', '-')), slot.loc(preds[0][3] if preds else None),
                              'no comparison tells a %s byte from a %s byte (%d comparisons on accumulator bytes): a character of that length cut by a read boundary is '
                              'decoded before it is complete (or held back although complete)' % (a, b2, len(preds)))
            else:
                run.ok(rid, slot.loc(), '%d byte comparisons separate ASCII / continuation / 2- / 3- / 4-byte lead bytes' % len(preds))
            # the backward scan for the lead byte: a read can end after the third byte of a 4-byte character, so the scan has to be able to look at the last three
            # bytes (trip bound of the loop that tests for continuation bytes, from its counter's start value, step and limit)
            cont_tests = {p_ for (mask, op, cv, p_) in preds if mask == 0xC0 and cv == 0x80 and op in ('==', '!=')}
            for b in slot.blocks.values():
                t = b.get('term')
                if not t or t.get('k') not in ('while', 'for', 'do') or 'cond' not in t:
                    continue
                dom_ = slot.dom()
                body = {x for x in slot.blocks if b['succs'][0] is not None and ('b', b['succs'][0]) in dom_.get(('b', x), set())}
                in_loop = any(slot.pos(pt) and (slot.pos(pt)[0] in body or pt in set(slot.walk(t['cond']))) for pt in cont_tests)
                if not in_loop:
                    continue
                trips = _trip_bound(slot, t['cond'])
                cond_nodes = set(slot.walk(t['cond']))
                if trips is not None and any(slot.pos(br) and slot.pos(br)[0] not in body and br not in cond_nodes and not any(br in set(slot.walk(x)) for x in cond_nodes)
                                             for br in byte_reads):
                    trips += 1            # the loop steps over continuation bytes; the lead byte in front of them is read after the loop
                run.instance(rid)
                if trips is None:
                    run.info(rid, slot.loc(t['cond']), 'the bound of the backward scan has a form the checker cannot measure: not decided')
                    run.ok(rid, slot.loc(t['cond']), 'scan bound not measured', nontrivial=False)
                elif trips < 3:
                    run.violation(rid, '%s::readyRead-slot#scan-too-short' % SOCK, slot.loc(t['cond']),
                                  'the backward scan for the lead byte of an incomplete character inspects at most the last %d byte(s): a 4-byte character cut after its third '
                                  'byte is taken for complete and decoded as replacement characters' % trips)
                else:
                    run.ok(rid, slot.loc(t['cond']), 'the backward scan can inspect the last %d bytes' % trips)


def _trip_bound(f, cond):
    """upper bound on the iterations of a counting loop from one conjunct "counter < K" / "A - v < K" of its condition, or None"""
    def conj(e):
        bo = f.binop(f.skip(e))
        if bo and bo[0] == '&&':
            return conj(bo[1]) + conj(bo[2])
        return [e]

    def stepped(decl, ops):
        return any(n['k'] == 'un' and n.get('op') in ops and f.nodes[f.skip(n['e'])].get('decl') == decl for n in f.nodes) or \
            any(n['k'] == 'assign' and n.get('op') in ('+=', '-=') and f.nodes[f.skip(n['l'])].get('decl') == decl for n in f.nodes)
    best = None
    for c in conj(cond):
        bo = f.binop(f.skip(c))
        if not bo or bo[0] not in ('<', '<='):
            continue
        kv = f.const_value(bo[2])
        if not kv or kv[0] != 'int':
            continue
        K = kv[1] + (1 if bo[0] == '<=' else 0)
        x = f.nodes[f.skip(bo[1])]
        trips = None
        if x['k'] == 'var' and x.get('vk') == 'local':
            d = f.defs().get(x['decl']) or {}
            iv = f.const_value(d['init']) if d.get('init') is not None else None
            if iv and iv[0] == 'int' and stepped(x['decl'], ('pre++', 'post++')):
                trips = K - iv[1]
        sub = f.binop(f.skip(bo[1]))
        if trips is None and sub and sub[0] == '-':
            v = f.nodes[f.skip(sub[2])]
            if v['k'] == 'var' and v.get('vk') == 'local' and stepped(v['decl'], ('pre--', 'post--')):
                d = f.defs().get(v['decl']) or {}
                if d.get('init') is not None and f.fmt(d['init'], inline=False) == f.fmt(sub[1], inline=False):
                    trips = K
        if trips is not None:
            best = trips if best is None else min(best, trips)
    return best


def r5_order(prog, run):
    """what one parsed buffer yields is delivered in document order: stream open, then the stanzas, then stream close"""
    rid = run.rule('C03.R5', 'processData emits what it parsed from one buffer in document order on every path: streamReceived before any stanzaReceived, streamClosed after '
                             'all of them (otherwise the event order depends on whether the close tag arrived in the same read as the stanzas before it)', floor=1)
    pd = prog.fn(SOCK + '::processData')
    kinds = {SOCK + '::streamReceived': 'O', SOCK + '::stanzaReceived': 'S', SOCK + '::streamClosed': 'C'}
    sites = {i: kinds[pd.cname(n)] for i, n in pd.calls() if pd.cname(n) in kinds}
    if set(sites.values()) != {'O', 'S', 'C'}:
        raise AnalysisBroken('C03.R5: processData no longer emits streamReceived / stanzaReceived / streamClosed (found %s)' % sorted(set(sites.values())))

    def transfer(f, nid, st):
        k = sites.get(nid)
        if k is None or st.startswith('BAD'):
            return None
        # allowed order: O* S* C*  (the whitespace keep-alive emits a null stanza on its own early-return path)
        rank = {'': 0, 'O': 1, 'S': 2, 'C': 3}
        if rank[k] < rank[st]:
            return 'BAD:%s-after-%s:%d' % (k, st, nid)
        return k
    exits, info = cfgx.explore(pd, '', transfer, None)
    run.paths += len(exits)
    run.instance(rid)
    bad = [st for st in exits if st.startswith('BAD')]
    if bad:
        what, nid = bad[0].split(':')[1], int(bad[0].split(':')[2])
        names = {'O': 'streamReceived', 'S': 'stanzaReceived', 'C': 'streamClosed'}
        a, b = what.split('-after-')
        run.violation(rid, 'processData#event-order#%s' % what, pd.loc(nid),
                      '%s can be emitted after %s for elements parsed from the same buffer: the order of events then depends on how the stream was split into reads'
                      % (names[a], names[b]), cfgx.describe_path(pd, exits[bad[0]]))
    else:
        run.ok(rid, pd.loc(), 'emission order open, stanzas, close on all %d path classes' % len(exits))


def r6_discard(prog, run):
    """what was received is dropped only once it has been delivered"""
    from ..effects import classify_use
    rid = run.rule('C03.R6', 'processData never discards accumulated text because a parse attempt failed or because the buffer reached some size: text that has not been parsed yet '
                             'stays until a later read completes it (where the buffer stands when such a condition is tested depends on how the reads were split)', floor=1)
    pd = prog.fn(SOCK + '::processData')
    # the accumulator: the member the chunk (parameter 0) is appended to
    acc = set()
    for i, n in pd.calls():
        s_ = pd.sym(n)
        if s_ and s_['name'] in APPENDS and n.get('obj') is not None and any(pd.nodes[j]['k'] == 'var' and pd.nodes[j].get('vk') == 'param' and pd.nodes[j].get('pidx') == 0
                                                                         for a in n.get('args', []) for j in pd.walk(a)):
            o = pd.nodes[pd.skip(n['obj'])]
            if o['k'] == 'mem':
                acc.add(o['f'])
    for i, n in pd.all_nodes('assign'):
        if n['op'] == '+=' and pd.nodes[pd.skip(n['l'])]['k'] == 'mem':
            acc.add(pd.nodes[pd.skip(n['l'])]['f'])
    if not acc:
        raise AnalysisBroken('C03.R6: the member processData accumulates the received text in was not found')
    seen = 0
    for i, n in enumerate(pd.nodes):
        if n['k'] != 'mem' or n.get('f') not in acc:
            continue
        kind, how = classify_use(pd, i)
        if kind != 'write' or how.split(' ')[0] in APPENDS or how.startswith(('assign +=', 'append', 'operator+=', 'push_back')):
            continue
        seen += 1
        run.instance(rid)
        ok, bad = None, None
        for c, pol in pd.atomic_assertions_at(i):
            t = pd.fmt(c)
            if 'QDomDocument::setContent' in t:
                top = pd.nodes[pd.skip(c)]
                neg = top['k'] == 'un' and top.get('op') == '!'
                if (pol is True and not neg) or (pol is False and neg):
                    ok = 'after a successful parse'
                else:
                    bad = 'after a failed parse'
            bo = pd.binop(pd.skip(c))
            if bo and bo[0] in ('<', '<=', '>', '>=') and n['name'] in t and any(x in t for x in ('::size()', '::length()', '::count()')):
                bad = bad or 'depending on the size of the buffer'
        if not ok and not bad and not _is_clearing(pd, i, how):
            bad = 'by rewriting it in place before it has been parsed (only appending and clearing keep the not-yet-parsed text byte for byte; where a trim, cut or replacement ' \
                  'bites depends on where the reads ended)'
        if ok and not bad:
            run.ok(rid, pd.loc(i), '%s %s: %s' % (n['name'], how, ok))
        elif not bad:
            run.ok(rid, pd.loc(i), '%s %s before the parse attempt, not conditioned on the size of the buffer (whitespace handling)' % (n['name'], how), nontrivial=False)
        else:
            run.violation(rid, 'processData#discards-unparsed#%s' % how.split(' ')[0], pd.loc(i),
                          'processData throws away the accumulated text (%s %s) %s: complete stanzas that are waiting in the buffer behind an incomplete one are lost, and '
                          'whether that happens depends on where the reads ended' % (n['name'], how, bad))
    if not seen:
        raise AnalysisBroken('C03.R6: processData never clears its buffer')


def _is_clearing(pd, i, how):
    """the write empties the accumulator (clear(), assignment of an empty text) rather than rewriting it"""
    if how.split(' ')[0] in ('clear',) or how.startswith('call clear') or 'clear' in how.split(' ')[:2]:
        return True
    par = pd.parents().get(i)
    while par is not None and pd.nodes[par]['k'] in ('cast', 'paren', 'tmp'):
        par = pd.parents().get(par)
    if par is not None and pd.nodes[par]['k'] == 'assign' and pd.nodes[par]['op'] == '=':
        r = pd.nodes[pd.skip(pd.nodes[par]['r'])]
        if r['k'] == 'construct' and not r.get('args'):
            return True
        if r['k'] in ('str', 'lit') and not (r.get('v') or r.get('s')):
            return True
    if par is not None and pd.nodes[par]['k'] == 'call' and pd.nodes[par].get('op') == '=' and len(pd.nodes[par].get('opargs', [])) == 2:
        r = pd.nodes[pd.skip(pd.nodes[par]['opargs'][1])]
        if r['k'] == 'construct' and not r.get('args'):
            return True
    return False


# --------------------------------------------------------------------------- R7: received DOM trees are not restructured
_DOM_MUTATORS = ('removeChild', 'replaceChild', 'insertBefore', 'insertAfter', 'appendChild', 'clear', 'normalize')
_DOM_FRESH = ('cloneNode', 'createElement', 'createElementNS', 'createDocumentFragment', 'importNode')
_DOM_RECORDS = ('QDomNode', 'QDomElement', 'QDomDocument', 'QDomDocumentFragment')


def _dom_origin(prog, f, nid, depth=0, seen=None):
    """where the DOM node an expression denotes comes from: 'fresh' (a clone / a newly created node / the document a local parse built), 'received' (a node handed in from outside:
    QDomElement is a shared handle, so this is the very node the stream's delivery loop is iterating), or None when not determined.  Returns (origin, explanation)"""
    seen = seen if seen is not None else set()
    n = f.nodes[f.skip(nid)]
    k = n.get('k')
    if (f.id, f.skip(nid)) in seen or depth > 8:
        return None, 'cycle'
    seen.add((f.id, f.skip(nid)))
    if k == 'call':
        s = f.sym(n) or {}
        if s.get('name') in _DOM_FRESH:
            return 'fresh', s.get('name')
        if s.get('record') in _DOM_RECORDS and n.get('obj') is not None:
            return _dom_origin(prog, f, n['obj'], depth + 1, seen)           # navigation: toElement(), firstChildElement(), parentNode(), documentElement() ...
        if n.get('op') and n.get('opargs'):
            return _dom_origin(prog, f, n['opargs'][0], depth + 1, seen)
        return None, 'call ' + (f.cname(n) or '?')
    if k == 'construct':
        a = n.get('args') or []
        if not a:
            return 'fresh', 'default-constructed'
        return _dom_origin(prog, f, a[0], depth + 1, seen)
    if k == 'var':
        if n.get('vk') == 'param':
            t = n.get('t') or ''
            if t.rstrip().endswith('&') and not t.lstrip().startswith('const '):
                # an in/out parameter: what the callers hand in
                top = f
                outs = []
                for c, ci in prog.callers().get(top.id, []):
                    cn = c.nodes[ci]
                    if cn.get('k') == 'call' and n.get('pidx') is not None and n['pidx'] < len(cn.get('args', [])):
                        outs.append(_dom_origin(prog, c, cn['args'][n['pidx']], depth + 1, seen))
                if outs and all(o[0] == 'fresh' for o in outs):
                    return 'fresh', 'every caller passes a fresh node'
                bad = [o for o in outs if o[0] == 'received']
                if bad:
                    return bad[0]
                return None, 'in/out parameter'
            return 'received', 'parameter %s' % n.get('name')
        if n.get('vk') == 'local':
            ds = f.all_defs(n.get('decl'))
            outs = [_dom_origin(prog, f, d, depth + 1, seen) for d in ds if d is not None]
            bad = [o for o in outs if o[0] == 'received']
            if bad:
                return bad[0]
            if outs and all(o[0] == 'fresh' for o in outs):
                return 'fresh', outs[0][1]
            if not outs and 'QDomDocument' in (n.get('t') or ''):
                return 'fresh', 'local document'
            return None, 'local'
        if n.get('vk') == 'capture' or n.get('cap'):
            return 'received', 'captured %s' % n.get('name')
    if k == 'mem':
        return None, 'member'
    if k in ('cast', 'paren', 'tmp') and 'e' in n:
        return _dom_origin(prog, f, n['e'], depth + 1, seen)
    return None, k


def r7_dom_structure(prog, run):
    rid = run.rule('C03.R7', 'no code restructures (removeChild, replaceChild, insertBefore/After, appendChild, clear) a DOM node it was handed: QDomElement is a shared handle and the '
                             'socket delivers the elements of one read by walking nextSiblingElement() of the very node the receiver sees, so detaching or re-parenting it drops the '
                             'remaining stanzas of that read; restructuring is done on a cloneNode() / newly created node only', floor=1)
    import os
    from .. import build, facts
    cprog = facts.Program(build.extract_control(os.path.join(build.VERIF, 'controls', 'c03_controls.cpp'), like_unit='base/Stream.cpp'))
    got = {}
    for g in cprog.fns.values():
        for i, n in g.calls():
            s = g.sym(n) or {}
            if s.get('name') in _DOM_MUTATORS and s.get('record') in _DOM_RECORDS and n.get('obj') is not None:
                got.setdefault(g.name, []).append(_dom_origin(cprog, g, n['obj'])[0])
    if got.get('detach_received') != ['received'] or got.get('clear_received') != ['received'] or set(got.get('restructure_clone', [])) != {'fresh'} \
            or set(got.get('dropChildren', [])) != {'fresh'}:
        raise AnalysisBroken('C03.R7: positive control not recognised (%s)' % got)
    run.instance(rid)
    run.ok(rid, 'controls/c03_controls.cpp', 'controls: restructuring a received node is reported, restructuring a clone (also through a helper) is not')
    nsites = 0
    for f in prog.fns.values():
        if f.entry is None or '/src/' not in f.file:
            continue
        for i, n in f.calls():
            s = f.sym(n) or {}
            if s.get('name') not in _DOM_MUTATORS or s.get('record') not in _DOM_RECORDS or n.get('obj') is None:
                continue
            nsites += 1
            run.instance(rid)
            origin, why = _dom_origin(prog, f, n['obj'])
            if origin == 'received':
                run.violation(rid, '%s#restructures-received-node#%s' % (f.outer_name(), s['name']), f.loc(i),
                              '%s calls %s on a DOM node that was handed in (%s): the node is shared with the caller, and the stream delivery loop continues from it with '
                              'nextSiblingElement()' % (f.display()[:60], f.fmt(i, inline=False)[:70], why))
            else:
                run.ok(rid, f.loc(i), '%s on %s' % (s['name'], why if origin else 'a node not derived from a parameter (%s)' % why), nontrivial=origin == 'fresh')
    run.extra['dom_restructuring_sites'] = nsites


# --------------------------------------------------------------------------- R8: a whitespace keep-alive read alone is not an element
def r8_keepalive(prog, run):
    rid = run.rule('C03.R8', 'a read that holds only whitespace is reported as a null element (a blank sharing a read with a stanza is skipped by the XML parser): in every slot '
                             'connected to the socket\'s element signal, whatever closes the connection or records an error is control-dependent on a test of the received element '
                             '- a catch-all "nobody claimed it" error would end the session for a keep-alive that happens to be read alone', floor=2)
    sig = SOCK + '::stanzaReceived'
    pd = prog.fn(SOCK + '::processData')
    if not any(pd.cname(n) == sig and n.get('args') and pd.nodes[pd.skip(n['args'][0])]['k'] == 'construct' and not pd.nodes[pd.skip(n['args'][0])].get('args') for _, n in pd.calls()):
        run.instance(rid)
        run.ok(rid, pd.loc(), 'processData does not report whitespace-only reads as elements')
        return
    slots = []
    for c in connects(prog):
        if (c['signal'] or {}).get('qname') != sig:
            continue
        if c['kind'] == 'lambda':
            slots += list(c['target'])
        else:
            g = prog.fns.get((c['target'] or {}).get('usr'))
            if g is not None:
                slots.append(g)
    slots = [g for g in slots if g.entry is not None and g.params]
    if not slots:
        raise AnalysisBroken('C03.R8: no slot with a body is connected to %s' % sig)
    for g in slots:
        derived = set()
        for i, n in enumerate(g.nodes):
            if n['k'] == 'decl':
                for d in n.get('decls', []):
                    if d.get('init') is not None and any(g.nodes[j]['k'] == 'var' and g.nodes[j].get('vk') == 'param' and g.nodes[j].get('pidx') == 0 for j in g.walk(d['init'])):
                        derived.add(d.get('var'))
        sinks = [i for i, n in g.calls() if (g.cname(n) or '').endswith(('::disconnectFromHost', '::setError', '::abort'))]
        run.instance(rid)
        bad = None
        for i in sinks:
            tested = False
            for c, p in g.atomic_assertions_at(i):
                for j in g.walk(c):
                    m = g.nodes[j]
                    if m['k'] == 'var' and ((m.get('vk') == 'param' and m.get('pidx') == 0) or m.get('decl') in derived):
                        tested = True
            if not tested:
                bad = i
                break
        if bad is not None:
            run.violation(rid, '%s#catch-all-error' % g.outer_name(), g.loc(bad),
                          '%s reaches %s without having looked at the received element: a whitespace keep-alive that is read alone arrives here as a null element, is claimed by '
                          'nobody and ends the connection, while the same blank in one read with a stanza is skipped - the outcome depends on the read boundaries'
                          % (g.display()[:50], g.fmt(bad, inline=False)[:50]))
        else:
            run.ok(rid, g.loc(), '%s: %d error / close site(s), each behind a test of the element' % (g.display()[:50], len(sinks)))


# --------------------------------------------------------------------------- R9: the closing tag is reported for the connection it was read from
def r9_close_after_elements(prog, run):
    rid = run.rule('C03.R9', 'processData reports the closing tag of the stream after it has delivered the elements of the same read; the handlers of those elements run synchronously '
                             'and may have closed or replaced the connection (a <see-other-host/> error is followed at once), so the stream-closed signal is emitted only behind a '
                             'test that the socket is still connected - otherwise error and closing tag in one read abort the new connection, in two reads they do not', floor=1)
    pd = prog.fn(SOCK + '::processData')
    emits = [i for i, n in pd.calls() if pd.cname(n) == SOCK + '::streamClosed']
    elems = [i for i, n in pd.calls() if pd.cname(n) == SOCK + '::stanzaReceived']
    if not emits or not elems:
        raise AnalysisBroken('C03.R9: processData no longer emits stanzaReceived / streamClosed')
    for i in emits:
        run.instance(rid)
        after_elements = any(pd.pos(e) and pd.pos(i) and e != i and _reaches(pd, pd.pos(e)[0], pd.pos(i)[0]) for e in elems)
        guarded = False
        for c, p in pd.atomic_assertions_at(i):
            t = pd.fmt(c, inline=True)
            if p is True and ('isConnected()' in t or ('::state()' in t and 'ConnectedState' in t)):
                guarded = True
        if not after_elements or guarded:
            run.ok(rid, pd.loc(i), 'streamClosed() is emitted %s' % ('only while the socket is still connected' if guarded else 'before any element of the read'))
        else:
            run.violation(rid, 'processData#close-reported-for-replaced-connection', pd.loc(i),
                          'processData emits streamClosed() after the elements of the same read without checking that the connection is still the one the tag was read from: a '
                          'handler that followed a redirect has already started the next connection, and the closing tag of the old stream disconnects it (only when error and '
                          'closing tag share a read)')


def _reaches(f, a, b):
    seen, work = set(), [a]
    while work:
        x = work.pop()
        if x == b:
            return True
        if x in seen:
            continue
        seen.add(x)
        work += [s_ for s_ in f.blocks[x]['succs'] if s_ is not None]
    return False
