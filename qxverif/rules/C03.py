"""C03 — stream framing is independent of how the byte stream is split into reads (structural clause):
bytes are turned into text in a way that cannot depend on where a read ends, and all receive state is
reset when a stream (re)starts."""
from ..build import AnalysisBroken
from ..callgraph import connects
from ..effects import classify_use

UNITS = ['base/Stream.cpp']
SOCK = 'QXmpp::Private::XmppSocket'
STATELESS = {'QString::fromUtf8', 'QString::fromLatin1', 'QString::fromLocal8Bit', 'QString::fromStdString', 'QString::fromUtf16',
             'QString::QString', 'QLatin1String::QLatin1String', 'QString::fromRawData', 'QTextCodec::toUnicode'}
READS = {'QIODevice::readAll', 'QIODevice::read', 'QIODevice::readLine', 'QIODevice::peek'}


def _derives_from_read(f, nid, depth=0):
    """the expression contains, or is a local initialised from, a socket read"""
    if depth > 6:
        return None
    for j in f.walk(nid):
        n = f.nodes[j]
        if n['k'] == 'call' and f.cname(n) in READS:
            return j
        if n['k'] == 'var' and n.get('vk') == 'local' and not n.get('outer'):
            for d in f.all_defs(n['decl']):
                if d != nid:
                    r = _derives_from_read(f, d, depth + 1)
                    if r is not None:
                        return r
    return None


def run(prog, run):
    run.explanation = ('Dataflow in every slot connected to readyRead of the XMPP socket: the bytes of one read must not reach a stateless '
                       'byte-to-text decoder; they may only be appended to a member accumulator that is decoded up to a computed character boundary '
                       '(or pass through a stateful decoder member). Every stream restart clears all receive-state members. Necessary for '
                       'split-independence (a multi-byte character cut by a read boundary); the DOM/regex framing itself is not decided.')
    run.assume('behaviour of QRegularExpression / QDomDocument on the accumulated text for every partition is not decided (runtime strings)')
    r1 = run.rule('C03.R1', 'no read of the socket reaches a stateless decoder directly; decoding happens from a member accumulator up to a computed '
                            'boundary, or through a stateful decoder member', floor=1)
    r2 = run.rule('C03.R2', 'every receive-state member (text buffer, cached stream header, undecoded bytes / decoder) is cleared in both '
                            'stream-restart slots before started() is emitted', floor=4)
    cons = [c for c in connects(prog) if c['fn'].qname == SOCK + '::setSocket']
    ready = [c for c in cons if c['signal']['qname'] == 'QIODevice::readyRead']
    if not ready:
        raise AnalysisBroken('C03: no slot connected to QIODevice::readyRead in XmppSocket::setSocket')
    rec = prog.record(SOCK)
    fields = {fl['qname']: fl for fl in rec['fields']}
    accumulators = set()
    for c in ready:
        slots = c['target'] if c['kind'] == 'lambda' else [prog.fns.get(c['target']['usr'])]
        for slot in slots:
            if slot is None:
                raise AnalysisBroken('C03: readyRead slot not analysable')
            fns = prog.closure(slot)
            reads = [(f, i) for f in fns for i, n in f.calls() if f.cname(n) in READS]
            if not reads:
                raise AnalysisBroken('C03.R1: readyRead slot %s does not read the socket' % slot.display())
            run.instance(r1)
            problems = []
            ok_notes = []
            for f in fns:
                # member accumulators fed by a read
                for i, n in f.calls():
                    s = f.sym(n)
                    if s and s['name'] in ('append', 'operator+=', 'push_back', 'insert') and n.get('obj') is not None:
                        o = f.nodes[f.skip(n['obj'])]
                        if o['k'] == 'mem' and o['f'].startswith(SOCK + '::') and any(_derives_from_read(f, a) is not None for a in n.get('args', [])):
                            accumulators.add(o['f'])
                for i, n in f.all_nodes('assign'):
                    l = f.nodes[f.skip(n['l'])]
                    if l['k'] == 'mem' and l['f'].startswith(SOCK + '::') and _derives_from_read(f, n['r']) is not None and n['op'] in ('+=', '='):
                        accumulators.add(l['f'])
                for i, n in f.calls():
                    cn = f.cname(n)
                    s = f.sym(n)
                    if cn in STATELESS or (n['k'] == 'construct' and n.get('cls') == 'QString' and n.get('args')):
                        for a in n.get('args', []):
                            src = _derives_from_read(f, a)
                            if src is not None:
                                problems.append((f, i, 'the bytes of a single read (%s) are decoded by the stateless %s: a multi-byte character '
                                                       'split across two reads is corrupted' % (f.fmt(src)[:50], cn)))
                            else:
                                # decoding from a member accumulator: needs an explicit, computed length
                                txt = f.fmt(a, inline=False)
                                mem = [m for m in f.walk(a) if f.nodes[m]['k'] == 'mem' and f.nodes[m]['f'] in accumulators]
                                if mem:
                                    args = [x for x in n.get('args', []) if f.nodes[x]['k'] != 'defarg']
                                    whole = len(args) == 1 and f.nodes[f.skip(args[0])]['k'] == 'mem'
                                    inspects = any(f.sym(c2) and f.sym(c2)['name'] in ('at', 'operator[]', 'constData', 'data', 'back', 'endsWith')
                                                   and c2.get('obj') is not None and f.nodes[f.skip(c2['obj'])].get('f') in accumulators
                                                   for _, c2 in f.calls()) or any(
                                        m2['k'] == 'index' for m2 in f.nodes)
                                    if whole or not inspects:
                                        problems.append((f, i, 'the whole accumulator %s is decoded statelessly on every read (no complete-character boundary is computed)'
                                                         % f.nodes[mem[0]]['f'].split('::')[-1]))
                                    else:
                                        ok_notes.append('decodes %s up to a computed boundary' % f.nodes[mem[0]]['f'].split('::')[-1])
                    # stateful decoders
                    if s and s.get('record') in ('QTextDecoder', 'QStringDecoder') and n.get('obj') is not None:
                        o = f.nodes[f.resolve(n['obj'])]
                        base = [m for m in f.walk(n['obj']) if f.nodes[m]['k'] == 'mem' and f.nodes[m]['f'].startswith(SOCK + '::')]
                        if base:
                            accumulators.add(f.nodes[base[0]]['f'])
                            ok_notes.append('stateful decoder member %s' % f.nodes[base[0]]['f'].split('::')[-1])
                        else:
                            problems.append((f, i, 'a decoder that is not a member loses its state between reads'))
            if problems:
                for f, i, what in problems:
                    run.violation(r1, '%s::readyRead-slot#stateless-decode' % SOCK, f.loc(i), what)
            elif ok_notes:
                run.ok(r1, slot.loc(), '; '.join(sorted(set(ok_notes))))
            else:
                raise AnalysisBroken('C03.R1: no decoding found on the path from readAll() in %s' % slot.display())

    # ---- R2
    pd = prog.fn(SOCK + '::processData')
    state = set(accumulators)
    for f in prog.closure(pd):
        for i, n in enumerate(f.nodes):
            if n['k'] == 'mem' and n['f'].startswith(SOCK + '::') and n['f'] in fields:
                t = fields[n['f']]['t']
                if classify_use(f, i)[0] in ('write', 'addr') and any(x in t for x in ('QString', 'QByteArray', 'QTextDecoder', 'QStringDecoder')):
                    state.add(n['f'])
    if len(state) < 2:
        raise AnalysisBroken('C03.R2: receive-state members not found (got %s)' % sorted(state))
    restart = [c for c in cons if c['signal']['qname'] in ('QAbstractSocket::connected', 'QSslSocket::encrypted')]
    if len(restart) < 2:
        raise AnalysisBroken('C03.R2: restart slots (connected / encrypted) not found')
    for c in restart:
        for slot in (c['target'] if c['kind'] == 'lambda' else []):
            emits = [i for i, n in slot.calls(SOCK + '::started')]
            if not emits:
                raise AnalysisBroken('C03.R2: %s does not emit started()' % slot.display())
            for fld in sorted(state):
                run.instance(r2)
                clears = []
                for i, n in slot.calls():
                    s = slot.sym(n)
                    if n.get('obj') is not None and slot.nodes[slot.skip(n['obj'])].get('f') == fld and s and s['name'] in ('clear', 'reset', 'resetState', 'truncate'):
                        clears.append(i)
                    if n.get('obj') is not None and s and s['name'] in ('reset', 'resetState') and \
                            any(slot.nodes[m].get('f') == fld for m in slot.walk(n['obj'])):
                        clears.append(i)
                for i, n in slot.all_nodes('assign'):
                    if slot.nodes[slot.skip(n['l'])].get('f') == fld:
                        clears.append(i)
                if clears and all(any(slot.node_dominates(cl, e) for cl in clears) for e in emits):
                    run.ok(r2, slot.loc(), '%s cleared before started() in the %s slot' % (fld.split('::')[-1], c['signal']['qname'].split('::')[-1]))
                else:
                    run.violation(r2, '%s::%s-slot#keeps:%s' % (SOCK, c['signal']['qname'].split('::')[-1], fld.split('::')[-1]), slot.loc(),
                                  'a new stream starts (%s) without clearing %s: leftovers of the previous stream are prepended to the new one'
                                  % (c['signal']['qname'].split('::')[-1], fld.split('::')[-1]))
