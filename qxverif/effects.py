"""Field access classification (who-may-write) over the fact model."""

# non-const member functions of Qt / std containers that do not change the logical content
_NON_MUTATING = {'begin', 'end', 'find', 'constBegin', 'constEnd', 'cbegin', 'cend', 'constFind', 'lowerBound',
                 'upperBound', 'rbegin', 'rend', 'data', 'first', 'last', 'front', 'back', 'at', 'value', 'get',
                 'operator->', 'operator*', 'has_value', 'operator bool', 'keyBegin', 'keyEnd', 'keyValueBegin',
                 'keyValueEnd', 'equal_range', 'isDetached', 'detach', 'toStdMap'}


# callees taking forwarding / non-const references without modifying the argument
_PURE_CALLEES = {'QString::arg', 'std::forward', 'std::as_const', 'qAsConst', 'std::get', 'std::get_if', 'std::holds_alternative',
                 'std::visit', 'QXmpp::Private::visit'}


def classify_use(fn, mem_nid):
    """how a field reference is used: ('write', how) / ('read', how) / ('addr', how)"""
    par = fn.parents()
    cur = mem_nid
    p = par.get(cur)
    # look through operator-> / operator* on smart pointers holding the field's owner is the *base*, not us
    while p is not None:
        n = fn.nodes[p]
        k = n['k']
        if k == 'icast':
            cur, p = p, par.get(p)
            continue
        if k == 'assign':
            if fn.skip(n['l']) == cur or n['l'] == cur:
                return ('write', 'assign ' + n['op'])
            return ('read', 'assigned from')
        if k == 'un':
            if n['op'] in ('pre++', 'pre--', 'post++', 'post--'):
                return ('write', n['op'])
            if n['op'] == '&':
                return ('addr', '&')
            return ('read', n['op'])
        if k == 'call':
            s = fn.sym(n)
            is_obj = (n.get('obj') == cur) or ('opargs' in n and n['opargs'] and n['opargs'][0] == cur and s and s.get('record'))
            if is_obj and s:
                name = s['name']
                if s.get('const') or s.get('static'):
                    return ('read', name)
                if name in _NON_MUTATING:
                    return ('read', name)
                if name == 'operator[]':
                    # element access: decided by what happens to the element
                    sub = classify_use_of_node(fn, p)
                    if sub[0] == 'write' or sub[0] == 'addr':
                        return ('write', 'operator[] ' + sub[1])
                    return ('read', 'operator[]')
                return ('write', name)
            # passed as an argument
            if s and s['qname'] in _PURE_CALLEES:
                return ('read', 'argument of ' + s['name'])
            if s and s['qname'] in ('std::invoke', 'std::__invoke') and n.get('args') and n['args'][0] == cur:
                return ('read', 'invoked through std::invoke')     # the callable is called, not replaced
            if s:
                args = n.get('args', [])
                if cur in args:
                    idx = args.index(cur)
                    pts = s.get('ptypes', [])
                    if idx < len(pts):
                        pt = pts[idx]
                        if '&' in pt and 'const' not in pt and '&&' not in pt:
                            return ('addr', 'non-const ref argument of ' + s['qname'])
                        if '*' in pt and 'const' not in pt:
                            return ('addr', 'pointer argument of ' + s['qname'])
                    if s['name'] in ('move', 'exchange', 'swap') :
                        return ('write', s['name'])
            return ('read', 'argument')
        if k == 'mem':
            # sub-field access: a.b — writing b writes a
            sub = classify_use(fn, p)
            return sub
        if k == 'index':
            sub = classify_use(fn, p)
            return sub
        if k == 'decl':
            for d in n['decls']:
                if d.get('init') is not None and fn.skip(d['init']) == cur and d.get('ref') and not d.get('const'):
                    return ('addr', 'bound to non-const reference ' + d['name'])
            return ('read', 'initialiser')
        if k == 'init':
            return ('read', 'initialiser')
        return ('read', k)
    return ('read', 'top')


def classify_use_of_node(fn, nid):
    """same classification for an arbitrary expression node (e.g. the result of operator[])"""
    return classify_use(fn, nid)


def field_uses(prog, field, fns=None):
    """[(fn, mem node id, kind, how)] over the program"""
    out = []
    for f in (fns if fns is not None else prog.fns.values()):
        for i, n in enumerate(f.nodes):
            if n['k'] == 'mem' and n.get('f') == field:
                kind, how = classify_use(f, i)
                out.append((f, i, kind, how))
            elif n['k'] == 'init' and n.get('f') == field:
                out.append((f, i, 'write', 'constructor initialiser'))
    return out


def top_function(prog, f):
    while f.is_lambda and f.parent_id in prog.fns:
        f = prog.fns[f.parent_id]
    return f
