"""Call graph over resolved callees with Qt-specific edges (connect, timers, continuations)."""
from collections import defaultdict, deque


def _fnref_sym(fn, nid):
    """symbol of &Class::method / function reference / QOverload<..>::of(&C::m) argument"""
    nid = fn.skip(nid)
    n = fn.nodes[nid]
    if n['k'] == 'un' and n['op'] == '&':
        return _fnref_sym(fn, n['e'])
    if n['k'] == 'fnref':
        return fn.sym(n)
    if n['k'] == 'call' and fn.cname(n).endswith('::of') and n.get('args'):
        return _fnref_sym(fn, n['args'][0])
    if n['k'] == 'call' and fn.cname(n) in ('qOverload', 'qConstOverload', 'qNonConstOverload') and n.get('args'):
        return _fnref_sym(fn, n['args'][0])
    return None


def connects(prog, fns=None):
    """every QObject::connect / callOnTimeout in the given functions:
    dicts {fn, nid, signal (sym or None), kind ('slot'|'lambda'), target (sym or [Fn]), sender (nid)}"""
    out = []
    for f in (fns if fns is not None else prog.fns.values()):
        for i, n in f.calls():
            cn = f.cname(n)
            if cn == 'QObject::connect':
                args = n.get('args', [])
                if len(args) < 3:
                    continue
                sig = None
                sig_idx = None
                for ai, a in enumerate(args):
                    s = _fnref_sym(f, a)
                    if s is not None:
                        sig, sig_idx = s, ai
                        break
                    sn = f.nodes[f.skip(a)]
                    if sn['k'] == 'str' and sn['v'][:1] in ('1', '2'):
                        sig, sig_idx = {'qname': 'SIGNAL:' + sn['v'][1:], 'usr': '', 'string': True}, ai
                        break
                if sig is None:
                    continue
                for a in args[sig_idx + 1:]:
                    an = f.nodes[f.skip(a)]
                    if an['k'] == 'lambda':
                        out.append({'fn': f, 'nid': i, 'signal': sig, 'kind': 'lambda',
                                    'target': prog.lambda_fns(f, an), 'sender': args[0], 'lambda_nid': f.skip(a)})
                        break
                    s = _fnref_sym(f, a)
                    if s is not None:
                        out.append({'fn': f, 'nid': i, 'signal': sig, 'kind': 'slot', 'target': s, 'sender': args[0]})
                        break
                    if an['k'] == 'str' and an['v'][:1] in ('1', '2'):
                        out.append({'fn': f, 'nid': i, 'signal': sig, 'kind': 'string-slot', 'target': an['v'][1:],
                                    'sender': args[0]})
                        break
            elif cn == 'QTimer::callOnTimeout':
                args = n.get('args', [])
                for a in args:
                    an = f.nodes[f.skip(a)]
                    if an['k'] == 'lambda':
                        out.append({'fn': f, 'nid': i, 'signal': {'qname': 'QTimer::timeout', 'usr': ''}, 'kind': 'lambda',
                                    'target': prog.lambda_fns(f, an), 'sender': n.get('obj'), 'timer': True,
                                    'lambda_nid': f.skip(a)})
                        break
                    s = _fnref_sym(f, a)
                    if s is not None:
                        out.append({'fn': f, 'nid': i, 'signal': {'qname': 'QTimer::timeout', 'usr': ''}, 'kind': 'slot',
                                    'target': s, 'sender': n.get('obj'), 'timer': True})
                        break
    return out


def lambda_role(fn, lam_nid):
    """the call a lambda expression is an argument of: (call nid, callee qname) or (None, None)"""
    par = fn.parents()
    p = par.get(lam_nid)
    hops = 0
    while p is not None and hops < 6:
        n = fn.nodes[p]
        if n['k'] in ('call', 'construct'):
            return p, fn.cname(n)
        p = par.get(p)
        hops += 1
    return None, None


def emit_sites(prog, signal_usr, signal_qname, fns=None):
    out = []
    for f in (fns if fns is not None else prog.fns.values()):
        for i, n in f.calls():
            s = f.sym(n)
            if s and (s['usr'] == signal_usr or (not signal_usr and s['qname'] == signal_qname)) and s.get('signal'):
                out.append((f, i))
    return out


def reach(edges, roots):
    """edges: {src: [(dst, info)]}; returns {node: (pred, info)} for reachable nodes (BFS tree)"""
    seen = {r: None for r in roots}
    q = deque(roots)
    while q:
        u = q.popleft()
        for v, info in edges.get(u, []):
            if v not in seen:
                seen[v] = (u, info)
                q.append(v)
    return seen


def path_to(tree, node):
    out = []
    cur = node
    while cur is not None and tree.get(cur) is not None:
        pred, info = tree[cur]
        out.append((pred, info, cur))
        cur = pred
    out.reverse()
    return out
