"""Compile-time witnesses: batches of static_asserts compiled (syntax only) with the project's real
compiler and flags against /repo's headers.  The compiler is the decision procedure; nothing runs."""
import os
import re
import shlex
import subprocess

from . import build
from .build import AnalysisBroken


def _flags(unit_rel):
    units = build.configure()
    e = units.get(build.unit(unit_rel))
    if not e:
        raise AnalysisBroken('witness: unit %s not in compile database' % unit_rel)
    toks = shlex.split(e['command'])
    out = []
    skip = 0
    for t in toks[1:]:
        if skip:
            skip -= 1
            continue
        if t in ('-o', '-MT', '-MF'):
            skip = 1
            continue
        if t in ('-c', '-MD', '-MMD') or t == e['file']:
            continue
        out.append(t)
    return toks[0], out


def run_witness(name, like_unit, prologue, asserts):
    """asserts: [(id, c++ bool constant expression)] -> ({id: True/False}, command string)"""
    cxx, flags = _flags(like_unit)
    wdir = os.path.join(build.WORK, 'witness')
    os.makedirs(wdir, exist_ok=True)
    src = os.path.join(wdir, name + '.cpp')
    lines = [prologue, '']
    for wid, expr in asserts:
        lines.append('static_assert((%s), "QXV:%s");' % (expr, wid))
    with open(src, 'w') as f:
        f.write('\n'.join(lines) + '\n')
    stubs = os.path.join(build.WORK, 'stubs')
    cmd = [cxx] + flags + ['-I' + stubs, '-fsyntax-only', '-fmax-errors=0', '-w', src]
    r = subprocess.run(cmd, stdout=subprocess.PIPE, stderr=subprocess.PIPE, text=True)
    failed = set(re.findall(r'static assertion failed: QXV:([^\s\n]+)', r.stderr))
    other = []
    for l in r.stderr.splitlines():
        if ' error: ' in l and 'static assertion failed: QXV:' not in l:
            other.append(l)
    if other:
        raise AnalysisBroken('witness %s does not compile (anchor changed?):\n  %s' % (name, '\n  '.join(other[:8])))
    res = {wid: (wid not in failed) for wid, _ in asserts}
    return res, ' '.join(shlex.quote(c) for c in cmd[:1]) + ' <project flags> -fsyntax-only -fmax-errors=0 ' + os.path.relpath(src, build.VERIF)
