"""Obligation bookkeeping, evidence files, known findings, exit codes."""
import json
import os
import time

from .build import VERIF, AnalysisBroken

KNOWN_FILE = os.path.join(VERIF, 'known_findings.json')
EVIDENCE_DIR = os.environ.get('QXV_EVIDENCE_DIR', os.path.join(VERIF, 'evidence'))


def load_known():
    if not os.path.exists(KNOWN_FILE):
        return []
    with open(KNOWN_FILE) as f:
        return json.load(f).get('findings', [])


class Run:
    def __init__(self, prop, tier='quick', seed=0):
        self.prop = prop
        self.tier = tier
        self.seed = seed
        self.t0 = time.time()
        self.rules = {}          # rule id -> dict
        self.order = []
        self.violations = []     # dicts
        self.infos = []
        self.units = []
        self.functions = 0
        self.assumptions = []
        self.explanation = ''
        self.extra = {}
        self.paths = 0
        self.nontrivial = set()
        self.checker_cmds = []
        self.degraded = []

    # ------------------------------------------------------------ rule bookkeeping
    def rule(self, rid, text, floor=0):
        if rid not in self.rules:
            self.rules[rid] = {'id': rid, 'text': text, 'floor': floor, 'matched': 0, 'obligations': 0,
                               'discharged': 0, 'samples': [], 'violations': 0}
            self.order.append(rid)
        return rid

    def instance(self, rid, n=1):
        self.rules[rid]['matched'] += n

    def ok(self, rid, site, detail='', nontrivial=True):
        r = self.rules[rid]
        r['obligations'] += 1
        r['discharged'] += 1
        if len(r['samples']) < 6:
            r['samples'].append({'rule': rid, 'site': site, 'detail': detail, 'verdict': 'ok'})
        if nontrivial:
            self.nontrivial.add((rid, site, detail))

    def violation(self, rid, key, site, what, path=None):
        """key identifies the construct (no line numbers); site is file:line for the reader"""
        r = self.rules[rid]
        r['obligations'] += 1
        r['violations'] += 1
        v = {'property': self.prop, 'rule': rid, 'key': key, 'site': site, 'what': what, 'path': path or []}
        self.violations.append(v)
        self.nontrivial.add((rid, site, key))
        if len(r['samples']) < 10:
            r['samples'].append({'rule': rid, 'site': site, 'detail': what, 'verdict': 'violation', 'key': key})

    def info(self, rid, site, what):
        self.infos.append({'rule': rid, 'site': site, 'what': what})

    def assume(self, text):
        if text not in self.assumptions:
            self.assumptions.append(text)

    def broken(self, msg):
        raise AnalysisBroken(msg)

    # ------------------------------------------------------------ finish
    def finish(self):
        for rid in self.order:
            r = self.rules[rid]
            # a rule that lost its instances because another rule's violation changed the shape it builds on (e.g. the mode predicate is broken,
            # so no region is 'Sensitive' any more) must not mask that violation: the floor is enforced only on runs without any violation
            if r['matched'] < r['floor'] and r['violations'] == 0 and not self.violations:
                raise AnalysisBroken('%s: matched %d instances, floor is %d (rule would pass vacuously): %s'
                                     % (rid, r['matched'], r['floor'], r['text']))
        known = [k for k in load_known() if k.get('property') == self.prop and not k.get('fixed')]
        known_keys = {(k['rule'], k['key']): k for k in known}
        new = []
        known_hit = []
        for v in self.violations:
            k = known_keys.get((v['rule'], v['key']))
            if k:
                known_hit.append((v, k))
            else:
                new.append(v)
        os.makedirs(EVIDENCE_DIR, exist_ok=True)
        replay_dir = os.path.join(EVIDENCE_DIR, 'replay')
        lines = []
        seen_known = set()
        for v, k in known_hit:
            if (v['rule'], v['key']) in seen_known:
                continue
            seen_known.add((v['rule'], v['key']))
            lines.append('KNOWN-FINDING: property=%s %s %s at %s: %s' % (self.prop, v['rule'], v['key'], v['site'], v['what']))
        if new:
            os.makedirs(replay_dir, exist_ok=True)
        for idx, v in enumerate(new):
            path = os.path.join(replay_dir, '%s-%d.json' % (self.prop, idx))
            with open(path, 'w') as f:
                json.dump(v, f, indent=1)
            lines.append('VIOLATION property=%s replay=%s' % (self.prop, path))
            lines.append('  %s %s at %s: %s' % (v['rule'], v['key'], v['site'], v['what']))
            for p in v.get('path', [])[:12]:
                lines.append('      ' + str(p))
        obligations = sum(r['obligations'] for r in self.rules.values())
        discharged = sum(r['discharged'] for r in self.rules.values())
        samples = []
        for rid in self.order:
            samples.extend(self.rules[rid]['samples'][:3])
        rules_out = [{k: r[k] for k in ('id', 'text', 'floor', 'matched', 'obligations', 'discharged', 'violations')}
                     for r in (self.rules[i] for i in self.order)]
        cov = {
            'explanation': self.explanation,
            'obligations': obligations,
            'discharged': discharged,
            'evaluations': max(1, obligations),
            'distinct_nontrivial': len(self.nontrivial),
            'rule': 'one case = one rule instance (a call site, field, path class, codec pair or static_assert) found in '
                    'the current source; non-trivial = it had at least one resolved call site, branch or comparison to examine',
            'samples': samples[:40] if samples else [{'note': 'no samples'}],
            'rules': rules_out,
            'units_analysed': self.units,
            'functions_analysed': self.functions,
            'paths_explored': self.paths,
            'known_findings_reported': [{'rule': v['rule'], 'key': v['key']} for v, _ in known_hit],
            'information': self.infos[:60],
            'degraded_functions': self.degraded,
            'checker_cmd': '; '.join(self.checker_cmds) if self.checker_cmds else './check %s --tier %s' % (self.prop, self.tier),
            'trusted_base': ['clang 14 front end (AST, CFG)', 'cmake/ninja compile database', 'Qt and libstdc++ documented contracts'],
            'exhaustive': False,
        }
        cov.update(self.extra)
        ev = {
            'property_id': self.prop,
            'tier': self.tier,
            'seed': self.seed,
            'level': 'other',
            'coverage': cov,
            'assumptions': self.assumptions,
            'wall_s': round(time.time() - self.t0, 2),
            'violations': len(new),
        }
        with open(os.path.join(EVIDENCE_DIR, self.prop + '.json'), 'w') as f:
            json.dump(ev, f, indent=1, ensure_ascii=False)
        return (1 if new else 0), lines
