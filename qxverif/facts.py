"""Program model over the extractor's facts: functions, expression nodes, CFG, dominance,
edge assertions, call graph.  Pure python, stdlib only."""
import json
import os
import re
from collections import defaultdict, deque

from .build import AnalysisBroken, REPO

# classes whose single-argument constructors are value-preserving string conversions
_STRINGISH = ('QString', 'QStringView', 'QLatin1String', 'QByteArray', 'QAnyStringView', 'QChar',
              'QLatin1Char', 'QStringBuilder', 'QByteArrayView', 'std::basic_string_view')

# diagnostics that belong to the known clang-14 / libstdc++-12 <ranges> incompatibility
_RANGES_DIAG = re.compile(r'(invalid operands to binary expression .*(_Partial|_RangeAdaptor|views::__adaptor|ranges::))'
                          r'|(/usr/include/c\+\+/)', re.S)


class Unit:
    def __init__(self, path, raw):
        self.path = path
        self.raw = raw
        self.syms = raw['syms']
        self.diags = raw.get('diags', [])
        self.fns = []

    def bad_diags(self):
        """error diagnostics outside the tolerated <ranges> class"""
        bad = []
        for d in self.diags:
            f = d.get('file', '')
            m = d.get('msg', '')
            if '/include/c++/' in f and not f.startswith(REPO):
                continue
            if 'invalid operands to binary expression' in m and ('_Partial' in m or 'views' in m or 'ranges' in m
                                                                  or '_Pipe' in m or '_RangeAdaptor' in m):
                continue
            if "no matching function for call to object of type 'const" in m and ('views' in m or 'ranges' in m
                                                                                 or '_Filter' in m or '_Transform' in m):
                continue
            bad.append(d)
        return bad


class Fn:
    def __init__(self, unit, raw):
        self.unit = unit
        self.raw = raw
        self.id = raw['id']
        self.qname = raw['qname']
        self.name = raw['name']
        self.file = raw['file']
        self.line = raw['line']
        self.endline = raw.get('endline', raw['line'])
        self.record = raw.get('record')
        self.nodes = raw['nodes']
        self.blocks = {b['id']: b for b in raw.get('blocks', [])}
        self.entry = raw.get('entry')
        self.exit = raw.get('exit')
        self.params = raw.get('params', [])
        self.is_lambda = raw.get('lambda', False)
        self.parent_id = raw.get('parent')
        self.targs = raw.get('targs', '')
        self.degraded = raw.get('degraded', False)
        self._pos = None
        self._dom = None
        self._pdom = None
        self._parents = None
        self._defs = None
        self._rel = None

    # ------------------------------------------------------------ basic accessors
    @property
    def relfile(self):
        if self._rel is None:
            self._rel = os.path.relpath(self.file, REPO) if self.file.startswith(REPO) else self.file
        return self._rel

    def loc(self, nid=None):
        if nid is None:
            return '%s:%d' % (self.relfile, self.line)
        return '%s:%d' % (self.relfile, self.nodes[nid].get('ln', self.line))

    def display(self):
        if self.is_lambda:
            return '%s::(lambda@%d)' % (self.outer_name(), self.line)
        return self.qname + (self.targs if self.targs else '')

    def outer_name(self):
        # qualified name of the enclosing non-lambda function
        q = self.qname
        q = re.sub(r'::\(anonymous class\)::operator\(\)$', '', q)
        q = re.sub(r'::\(lambda[^)]*\)::operator\(\)$', '', q)
        return q

    def N(self, nid):
        return self.nodes[nid]

    def sym(self, n):
        if isinstance(n, int):
            n = self.nodes[n]
        c = n.get('c')
        if c is None or not isinstance(c, int) or n['k'] == 'cond':
            return None
        return self.unit.syms[c]

    def cname(self, n):
        s = self.sym(n)
        return s['qname'] if s else ''

    def skip(self, nid):
        """look through integral implicit casts and string-preserving constructor wrappers"""
        while nid is not None:
            n = self.nodes[nid]
            k = n['k']
            if k == 'icast':
                nid = n['e']
            elif k == 'construct' and len(n['args']) == 1 and _is_stringish(n.get('cls', '')):
                nid = n['args'][0]
            elif k == 'call' and n.get('udl') and n['args']:
                # u"..."_s user-defined literal: the cooked string is the first argument
                nid = n['args'][0]
            elif k == 'call' and self.cname(n) in ('QXmpp::Private::toString65', 'QXmpp::Private::toString60',
                                                   'QStringView::toString', 'QString::toString', 'std::move',
                                                   'std::forward', 'qAsConst', 'std::as_const',
                                                   'QString::fromUtf8', 'QString::fromLatin1', 'QString::toUtf8',
                                                   'QString::toLatin1') and (n.get('args') or n.get('obj') is not None) \
                    and len([a for a in n.get('args', []) if self.nodes[a]['k'] != 'defarg']) <= 1:
                real = [a for a in n.get('args', []) if self.nodes[a]['k'] != 'defarg']
                nid = real[0] if real else n['obj']
            else:
                return nid
        return nid

    def children(self, nid):
        n = self.nodes[nid]
        k = n['k']
        out = []
        if k == 'cond':
            return [n['c'], n['a'], n['b']]
        for key in ('obj', 'fn', 'base', 'idx', 'l', 'r', 'e', 'size'):
            v = n.get(key)
            if isinstance(v, int):
                out.append(v)
        if k == 'call' and 'op' in n and 'opargs' in n:
            # operator call: operands are in opargs (obj is opargs[0])
            out = [v for v in out if v != n.get('obj')]
            out = list(n['opargs']) + [v for v in out if v not in n['opargs']]
        else:
            out.extend(n.get('args', []))
        out.extend(n.get('subs', []))
        out.extend(n.get('elems', []))
        out.extend(n.get('placement', []))
        if k == 'decl':
            for d in n['decls']:
                if 'init' in d:
                    out.append(d['init'])
        if k == 'lambda':
            for c in n.get('caps', []):
                if 'init' in c:
                    out.append(c['init'])
        return out

    def walk(self, nid):
        """pre-order ids of the subtree (lambda bodies are separate functions)"""
        st = [nid]
        seen = set()
        while st:
            i = st.pop()
            if i in seen:
                continue
            seen.add(i)
            yield i
            ch = self.children(i)
            st.extend(reversed(ch))

    def all_nodes(self, kind=None):
        for i, n in enumerate(self.nodes):
            if kind is None or n['k'] == kind:
                yield i, n

    def parents(self):
        if self._parents is None:
            p = {}
            for i in range(len(self.nodes)):
                if self.nodes[i]['k'] == 'methref':
                    continue        # bound-member callee expressions duplicate the call's object edge
                for c in self.children(i):
                    p.setdefault(c, i)
            self._parents = p
        return self._parents

    # ------------------------------------------------------------ calls
    def calls(self, name=None, names=None):
        """(nid, node) of call/construct nodes, optionally filtered by callee qualified name"""
        for i, n in enumerate(self.nodes):
            if n['k'] in ('call', 'construct'):
                cn = self.cname(n)
                if name is not None and cn != name:
                    continue
                if names is not None and cn not in names:
                    continue
                yield i, n

    def args(self, n):
        if isinstance(n, int):
            n = self.nodes[n]
        return n.get('args', [])

    # ------------------------------------------------------------ CFG positions
    def positions(self):
        """node id -> (block id, index in block) for nodes that are CFG elements"""
        if self._pos is None:
            pos = {}
            for b in self.blocks.values():
                for idx, e in enumerate(b['elems']):
                    pos.setdefault(e, (b['id'], idx))
            self._pos = pos
        return self._pos

    def pos(self, nid):
        """position of a node: its own if it is an element, else that of the nearest ancestor element"""
        pos = self.positions()
        par = self.parents()
        i = nid
        guard = 0
        while i is not None and guard < 10000:
            if i in pos:
                return pos[i]
            i = par.get(i)
            guard += 1
        return None

    def succs(self, bid):
        return [s for s in self.blocks[bid]['succs'] if s is not None]

    def preds_map(self):
        pm = defaultdict(list)
        for b in self.blocks.values():
            for s in b['succs']:
                if s is not None:
                    pm[s].append(b['id'])
        return pm

    # ---- split graph: block nodes ('b',id) and edge nodes ('e',id,succ_index)
    def _split_graph(self):
        g = defaultdict(list)
        for b in self.blocks.values():
            for i, s in enumerate(b['succs']):
                if s is None:
                    continue
                e = ('e', b['id'], i)
                g[('b', b['id'])].append(e)
                g[e].append(('b', s))
        return g

    def _dominators(self, graph, root):
        # iterative dataflow on reverse post-order; graphs are tiny
        order = []
        seen = set()
        st = [(root, iter(graph.get(root, [])))]
        seen.add(root)
        while st:
            node, it = st[-1]
            adv = False
            for s in it:
                if s not in seen:
                    seen.add(s)
                    st.append((s, iter(graph.get(s, []))))
                    adv = True
                    break
            if not adv:
                order.append(node)
                st.pop()
        rpo = list(reversed(order))
        preds = defaultdict(list)
        for u in rpo:
            for v in graph.get(u, []):
                preds[v].append(u)
        dom = {root: {root}}
        allset = set(rpo)
        for n in rpo:
            if n != root:
                dom[n] = None
        changed = True
        while changed:
            changed = False
            for n in rpo:
                if n == root:
                    continue
                ps = [dom[p] for p in preds[n] if dom.get(p) is not None]
                if not ps:
                    continue
                new = set.intersection(*ps) | {n}
                if dom[n] != new:
                    dom[n] = new
                    changed = True
        return {k: (v if v is not None else set()) for k, v in dom.items()}

    def dom(self):
        if self._dom is None:
            self._dom = self._dominators(self._split_graph(), ('b', self.entry))
        return self._dom

    def pdom(self):
        if self._pdom is None:
            g = self._split_graph()
            rg = defaultdict(list)
            for u, vs in g.items():
                for v in vs:
                    rg[v].append(u)
            self._pdom = self._dominators(rg, ('b', self.exit))
        return self._pdom

    def reachable_blocks(self):
        seen = {self.entry}
        q = deque([self.entry])
        while q:
            b = q.popleft()
            for s in self.succs(b):
                if s not in seen:
                    seen.add(s)
                    q.append(s)
        return seen

    def block_dominates(self, a, b):
        return ('b', a) in self.dom().get(('b', b), ())

    def pos_dominates(self, pa, pb):
        """position pa (block,idx) dominates position pb"""
        if pa is None or pb is None:
            return False
        if pa[0] == pb[0]:
            return pa[1] <= pb[1]
        return self.block_dominates(pa[0], pb[0])

    def node_dominates(self, a, b):
        return self.pos_dominates(self.pos(a), self.pos(b))

    def edges_dominating(self, bid):
        """edge nodes ('e', block, succ_index) that dominate block bid"""
        return [x for x in self.dom().get(('b', bid), ()) if x[0] == 'e']

    def assertions_at(self, nid_or_pos):
        """list of (cond_node_id, polarity, (block, idx_of_succ)) holding whenever the position is reached.
        A branching edge is included only when the *other* edge of the same terminator does not also
        dominate (trivially true) — i.e. plain dominance by the labelled edge."""
        pos = nid_or_pos if isinstance(nid_or_pos, tuple) else self.pos(nid_or_pos)
        if pos is None:
            return []
        out = []
        for (_, b, i) in self.edges_dominating(pos[0]):
            blk = self.blocks[b]
            t = blk.get('term')
            if not t or 'cond' not in t:
                continue
            k = t['k']
            if k == 'switch':
                lab = t['cases'][i] if i < len(t.get('cases', [])) else None
                out.append((t['cond'], ('case', lab), (b, i)))
            elif k in ('if', 'while', 'for', 'do', '?:', '&&', '||'):
                if len(blk['succs']) == 2:
                    out.append((t['cond'], i == 0, (b, i)))
            elif k == 'rangefor':
                pass
        return out

    def atomic_assertions_at(self, nid_or_pos):
        """assertions decomposed through !, && (when true) and || (when false): list of (node, bool)"""
        res = []
        for c, pol, _ in self.assertions_at(nid_or_pos):
            if isinstance(pol, tuple):
                res.append((c, pol))
                continue
            self._decompose(c, pol, res)
        return res

    def _decompose(self, c, pol, res, known=None):
        """atomic consequences of "c evaluates to pol".  known(node) -> True/False/None supplies what a path
        exploration already established about a sub-condition, which makes the otherwise undecomposable cases
        (a && b is false, a || b is true) decomposable: !(a && b) with a known true gives !b."""
        c = self.skip(c)
        n = self.nodes[c]
        k = n['k']
        if k == 'un' and n['op'] == '!':
            self._decompose(n['e'], not pol, res, known)
            return
        if k == 'call' and n.get('op') == '!' and n.get('opargs'):
            res.append((c, pol))
            return
        if k == 'bin' and n['op'] == '&&' and pol:
            self._decompose(n['l'], True, res, known)
            self._decompose(n['r'], True, res, known)
            return
        if k == 'bin' and n['op'] == '||' and not pol:
            self._decompose(n['l'], False, res, known)
            self._decompose(n['r'], False, res, known)
            return
        if k == 'bin' and n['op'] in ('&&', '||'):
            # a && b false / a || b true: nothing follows for a single operand unless the other one is known
            # (clang's CFG joins the short-circuit edge and the evaluated-right-operand edge in the block that
            # owns the if, so "the right operand decided" is NOT implied by reaching that block's edges)
            res.append((c, pol))
            if known is not None:
                other = (n['op'] == '&&')       # value of the other operand that makes this one decisive
                kl, kr = known(n['l']), known(n['r'])
                if kl is other:
                    self._decompose(n['r'], pol, res, known)
                elif kr is other:
                    self._decompose(n['l'], pol, res, known)
            return
        # inline boolean single-assignment locals
        if k == 'var' and n.get('vk') == 'local':
            d = self.single_def(n['decl'])
            if d is not None:
                self._decompose(d, pol, res, known)
                return
        res.append((c, pol))

    # ------------------------------------------------------------ local definitions
    def defs(self):
        """var decl id -> {'init': node or None, 'assigned': bool, 'const': bool, 'decl_node': id}"""
        if self._defs is None:
            d = {}
            for i, n in enumerate(self.nodes):
                if n['k'] == 'decl':
                    for dd in n['decls']:
                        d[dd['var']] = {'init': dd.get('init'), 'assigned': False, 'const': dd.get('const', False),
                                        'rangevar': dd.get('rangevar', False),
                                        'ref': dd.get('ref', False), 'node': i, 'name': dd['name'], 't': dd['t'],
                                        'tc': dd.get('tc'), 'style': dd.get('style')}
                        for j, b in enumerate(dd.get('bindings', [])):
                            d[b['var']] = {'init': None, 'assigned': False, 'const': True, 'node': i,
                                           'name': b['name'], 'binding_of': dd['var'], 'idx': j, 't': '', 'tc': None}
            for i, n in enumerate(self.nodes):
                if n['k'] == 'assign':
                    l = self.nodes[self.skip(n['l'])]
                    if l['k'] == 'var' and l['decl'] in d:
                        d[l['decl']]['assigned'] = True
                elif n['k'] == 'un' and n['op'] in ('pre++', 'pre--', 'post++', 'post--', '&'):
                    l = self.nodes[self.skip(n['e'])]
                    if l['k'] == 'var' and l['decl'] in d:
                        d[l['decl']]['assigned'] = True
            self._defs = d
        return self._defs

    def single_def(self, decl):
        """initialiser node of a local that is never re-assigned (None otherwise)"""
        d = self.defs().get(decl)
        if not d or d['assigned'] or d.get('init') is None or d.get('rangevar'):
            return None
        init = self.nodes[d['init']]
        if init['k'] == 'construct' and not init.get('args') and not d.get('const'):
            return None     # default-constructed object that is filled in later (e.g. QXmppIq iq; iq.parse(el))
        return d['init']

    def all_defs(self, decl):
        """every value a local may hold: its initialiser plus the right-hand side of every assignment"""
        out = []
        d = self.defs().get(decl)
        if d and d.get('init') is not None:
            out.append(d['init'])
        for i, n in enumerate(self.nodes):
            if n['k'] == 'assign' and n['op'] == '=':
                l = self.nodes[self.skip(n['l'])]
                if l['k'] == 'var' and l.get('decl') == decl:
                    out.append(n['r'])
            elif n['k'] == 'call' and n.get('op') == '=' and len(n.get('opargs', [])) == 2:
                # assignment of a class type (QString::operator=)
                l = self.nodes[self.skip(n['opargs'][0])]
                if l['k'] == 'var' and l.get('decl') == decl:
                    out.append(n['opargs'][1])
        return out

    def resolve_all(self, nid, depth=4):
        """set of expression nodes a value may come from, following locals through all their definitions"""
        nid = self.skip(nid)
        n = self.nodes[nid]
        if depth > 0 and n['k'] == 'var' and n.get('vk') == 'local' and not n.get('outer'):
            ds = self.all_defs(n['decl'])
            if ds:
                out = set()
                for d in ds:
                    out |= self.resolve_all(d, depth - 1)
                return out
        return {nid}

    def resolve(self, nid, depth=6):
        """follow single-assignment locals to their initialiser"""
        nid = self.skip(nid)
        while depth > 0:
            n = self.nodes[nid]
            if n['k'] == 'var' and n.get('vk') == 'local' and not n.get('outer'):
                d = self.single_def(n['decl'])
                if d is None:
                    return nid
                nid = self.skip(d)
                depth -= 1
            else:
                return nid
        return nid

    # ------------------------------------------------------------ canonical text
    def fmt(self, nid, inline=True, depth=0):
        if nid is None:
            return '<none>'
        if depth > 40:
            return '…'
        nid = self.skip(nid)
        n = self.nodes[nid]
        k = n['k']
        f = lambda x: self.fmt(x, inline, depth + 1)
        if k == 'str':
            return json.dumps(n['v'], ensure_ascii=False)
        if k in ('int', 'char'):
            return str(n['v'])
        if k == 'bool':
            return 'true' if n['v'] else 'false'
        if k == 'null':
            return 'nullptr'
        if k == 'float':
            return '<float>'
        if k == 'this':
            return 'this'
        if k == 'zero':
            return '%s{}' % n.get('t', '')
        if k == 'defarg':
            return '<default>'
        if k == 'definit':
            return '<dmi:%s>' % n.get('f')
        if k == 'enum':
            return n['name']
        if k == 'fnref':
            return '&' + self.cname(n)
        if k == 'methref':
            return '%s.%s' % (f(n['base']), self.cname(n))
        if k == 'var':
            vk = n.get('vk')
            if vk == 'param' and not n.get('outer'):
                alias = getattr(self, 'param_alias', None)
                if alias and n['pidx'] in alias:
                    return alias[n['pidx']]      # set while a caller evaluates this function as a helper: the argument's text in the caller's terms
                return 'p%d' % n['pidx']
            if vk == 'global':
                return n.get('qname', n['name'])
            if inline and vk == 'local' and not n.get('outer'):
                d = self.single_def(n['decl'])
                if d is not None and depth < 30:
                    return self.fmt(d, inline, depth + 1)
            return n['name']
        if k == 'mem':
            b = f(n['base'])
            return '%s.%s' % (b, n['name'])
        if k in ('call', 'construct'):
            cn = self.cname(n) or (('(' + f(n['fn']) + ')') if 'fn' in n else '?')
            if cn in ('std::holds_alternative', 'std::get', 'std::get_if'):
                cn += (self.sym(n) or {}).get('targs', '').split(',')[0].rstrip('>') + '>' if (self.sym(n) or {}).get('targs') else ''
            if k == 'construct':
                cn = n.get('cls', cn)
            if 'op' in n and 'opargs' in n:
                ops = n['opargs']
                op = n['op']
                if op == '->' or (op == '*' and len(ops) == 1):
                    return f(ops[0]) if op == '->' else '*' + f(ops[0])
                if len(ops) == 2 and op not in ('()', '[]'):
                    return '(%s %s %s)' % (f(ops[0]), op, f(ops[1]))
                if len(ops) == 1:
                    return '%s%s' % (op, f(ops[0]))
                if op == '[]' and len(ops) == 2:
                    return '%s[%s]' % (f(ops[0]), f(ops[1]))
                if op == '()':
                    return '%s(%s)' % (f(ops[0]), ', '.join(f(a) for a in ops[1:]))
            args = ', '.join(f(a) for a in n.get('args', []) if self.nodes[a]['k'] != 'defarg')
            if n.get('obj') is not None:
                return '%s.%s(%s)' % (f(n['obj']), cn, args)
            return '%s(%s)' % (cn, args)
        if k == 'bin':
            return '(%s %s %s)' % (f(n['l']), n['op'], f(n['r']))
        if k == 'assign':
            return '%s %s %s' % (f(n['l']), n['op'], f(n['r']))
        if k == 'un':
            return '%s%s' % (n['op'], f(n['e']))
        if k == 'cond':
            return '(%s ? %s : %s)' % (f(n['c']), f(n['a']), f(n['b']))
        if k == 'cast':
            return '%s(%s)' % (n['to'], f(n['e']))
        if k == 'index':
            return '%s[%s]' % (f(n['base']), f(n['idx']))
        if k == 'initlist':
            return '%s{%s}' % (n.get('t', ''), ', '.join(f(a) for a in n['elems']))
        if k == 'lambda':
            return '<lambda>'
        if k == 'ret':
            return 'return ' + (f(n['e']) if 'e' in n else '')
        if k == 'decl':
            return '; '.join('%s %s = %s' % (d['t'], d['name'], f(d['init']) if 'init' in d else '') for d in n['decls'])
        if k == 'new':
            return 'new %s%s' % (n['cls'], {'none': '', 'call': '()', 'list': '{}'}.get(n.get('init'), ''))
        if k == 'delete':
            return 'delete ' + f(n['e'])
        if k == 'sizeof':
            return 'sizeof(%s)' % n.get('of', '?')
        if k == 'init':
            return '%s(%s)' % (n.get('f', n.get('base', '?')), f(n['e']) if 'e' in n else '')
        if k == 'depmem':
            return '%s.%s' % (f(n['base']) if 'base' in n else 'this', n['name'])
        if k == 'unresolved':
            return n['name']
        if k == 'recovery':
            return '<recovery %s>' % ', '.join(f(a) for a in n.get('subs', []))
        if k == 'throw':
            return 'throw'
        return '<%s %s>' % (n.get('cls', k), ', '.join(f(a) for a in n.get('subs', [])))

    # ------------------------------------------------------------ pattern helpers
    def binop(self, nid):
        """(op, lhs, rhs) for builtin, rewritten and overloaded binary operators"""
        n = self.nodes[self.skip(nid)]
        if n['k'] == 'bin':
            return n['op'], n['l'], n['r']
        if n['k'] == 'call' and 'op' in n and len(n.get('opargs', [])) == 2:
            return n['op'], n['opargs'][0], n['opargs'][1]
        return None

    def strval(self, nid):
        n = self.nodes[self.skip(nid)]
        if n['k'] == 'str':
            return n['v']
        return None

    def returns(self):
        for i, n in enumerate(self.nodes):
            if n['k'] == 'ret':
                yield i, n

    def const_value(self, nid):
        """('bool', v) / ('int', v) / ('enum', name) / ('str', s) or None"""
        n = self.nodes[self.skip(nid)]
        k = n['k']
        if k in ('bool', 'int', 'str', 'char'):
            return (k, n['v'])
        if k == 'enum':
            return ('enum', n['name'])
        if k == 'null':
            return ('null', None)
        return None


def _is_stringish(cls):
    base = cls.split('<')[0]
    return base in _STRINGISH


class Program:
    def __init__(self, fact_files):
        self.units = {}
        self.fns = {}          # id -> Fn (first definition wins)
        self.by_qname = defaultdict(list)
        self.records = {}
        self.enums = {}
        self.tables = {}
        self.tables_by_var = {}
        self.lambdas_of = defaultdict(list)
        for upath, ffile in sorted(fact_files.items()):
            with open(ffile) as f:
                raw = json.load(f)
            u = Unit(upath, raw)
            self.units[upath] = u
            for fr in raw['functions']:
                fn = Fn(u, fr)
                u.fns.append(fn)
                if fn.id in self.fns:
                    continue
                self.fns[fn.id] = fn
                self.by_qname[fn.qname].append(fn)
                if fn.parent_id:
                    self.lambdas_of[fn.parent_id].append(fn)
            for r in raw['records']:
                key = r['qname'] + r.get('targs', '')
                self.records.setdefault(key, r)
            for e in raw['enums']:
                self.enums.setdefault(e['qname'], e)
            for t in raw['tables']:
                self.tables.setdefault(t['qname'] + '@' + t['file'], t)
                self.tables_by_var[(upath, t['var'])] = t
        self._callers = None

    # ------------------------------------------------------------ lookup
    def check_parse(self, allow_degraded=True):
        bad = []
        for u in self.units.values():
            for d in u.bad_diags():
                bad.append('%s:%s: %s' % (d.get('file'), d.get('line'), d.get('msg', '')[:160]))
        if bad:
            raise AnalysisBroken('units failed to parse:\n  ' + '\n  '.join(bad[:20]))

    def fn(self, qname, required=True, unit=None, nparams=None, pick=None):
        """the unique non-lambda definition with this qualified name"""
        c = [f for f in self.by_qname.get(qname, []) if not f.is_lambda]
        if unit:
            c = [f for f in c if f.file.endswith(unit)]
        if nparams is not None:
            c = [f for f in c if len(f.params) == nparams]
        if pick:
            c = [f for f in c if pick(f)]
        if not c:
            if required:
                raise AnalysisBroken('anchor gone: function %s' % qname)
            return None
        if len(c) > 1:
            # template instantiations: keep all distinct, caller should use fns()
            ids = {(f.file, f.line) for f in c}
            if len(ids) > 1:
                raise AnalysisBroken('anchor ambiguous: %s defined at %s' % (qname, sorted(ids)))
        return c[0]

    def fns_named(self, qname):
        return [f for f in self.by_qname.get(qname, []) if not f.is_lambda]

    def lambdas_in(self, fn, recursive=True):
        out = []
        st = [fn]
        while st:
            f = st.pop()
            for l in self.lambdas_of.get(f.id, []):
                out.append(l)
                if recursive:
                    st.append(l)
        return out

    def closure(self, fn):
        """fn plus all lambdas nested in it"""
        return [fn] + self.lambdas_in(fn)

    def record(self, qname, required=True):
        r = self.records.get(qname)
        if r is None and required:
            raise AnalysisBroken('anchor gone: record %s' % qname)
        return r

    def enum(self, qname, required=True):
        e = self.enums.get(qname)
        if e is None and required:
            raise AnalysisBroken('anchor gone: enum %s' % qname)
        return e

    def callee_fns(self, fn, n):
        """definitions (Fn) a call node may resolve to: by USR, then by qualified name"""
        s = fn.sym(n)
        if not s:
            return []
        f = self.fns.get(s['usr'])
        if f:
            return [f]
        return []

    def lambda_fns(self, fn, n):
        return [self.fns[i] for i in n.get('fns', []) if i in self.fns]

    def callers(self):
        """callee fn id -> list of (caller Fn, call node id)"""
        if self._callers is None:
            cs = defaultdict(list)
            for f in self.fns.values():
                for i, n in f.calls():
                    s = f.sym(n)
                    if s:
                        cs[s['usr']].append((f, i))
                for i, n in f.all_nodes('fnref'):
                    s = f.sym(n)
                    if s:
                        cs[s['usr']].append((f, i))
            self._callers = cs
        return self._callers

    def callers_by_qname(self, qname):
        out = []
        for f in self.fns.values():
            for i, n in enumerate(f.nodes):
                if n['k'] in ('call', 'construct', 'fnref', 'methref') and f.cname(n) == qname:
                    out.append((f, i))
        return out

    def all_functions(self):
        return list(self.fns.values())
