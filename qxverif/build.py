"""Compilation database + fact extraction for the current /repo working tree.

Everything is rebuilt from /repo's sources as they are *now*; the only cache is keyed by the
content hash of the unit, of every header under /repo/src, of the compile flags and of the
extractor binary, so an edited source is always re-analysed.
"""
import hashlib
import json
import os
import shlex
import subprocess
import sys
import time
from concurrent.futures import ThreadPoolExecutor

VERIF = os.path.dirname(os.path.dirname(os.path.abspath(__file__)))
REPO = os.environ.get('QXV_REPO', '/repo')
WORK = os.environ.get('QXV_WORK', os.path.join(VERIF, '.work'))
QXV = os.path.join(VERIF, 'build', 'qxv')
RESOURCE_DIR = '/usr/lib/llvm-14/lib/clang/14.0.6'
JOBS = int(os.environ.get('QXV_JOBS', '16'))


class AnalysisBroken(Exception):
    """Exit 2: the analysis cannot be trusted (anchor gone, unit failed to parse, ...)."""


def _sha(*parts):
    h = hashlib.sha256()
    for p in parts:
        if isinstance(p, str):
            p = p.encode()
        h.update(p)
        h.update(b'\0')
    return h.hexdigest()


def _file_sha(path):
    with open(path, 'rb') as f:
        return hashlib.sha256(f.read()).hexdigest()


def _src_root():
    return os.path.join(REPO, 'src')


def _list(dirpath, exts):
    out = []
    for root, dirs, files in os.walk(dirpath):
        dirs.sort()
        for fn in sorted(files):
            if fn.endswith(exts):
                out.append(os.path.join(root, fn))
    return out


def _cmake_inputs_hash():
    files = [os.path.join(REPO, 'CMakeLists.txt')] + _list(_src_root(), ('CMakeLists.txt', '.cmake', '.in'))
    files += _list(os.path.join(REPO, 'cmake'), ('',)) if os.path.isdir(os.path.join(REPO, 'cmake')) else []
    parts = []
    for f in files:
        if os.path.isfile(f):
            parts.append(f)
            parts.append(_file_sha(f))
    # the source list matters too (globbing is not used by qxmpp, but be safe)
    parts.extend(_list(_src_root(), ('.cpp',)))
    return _sha(*parts)


def configure():
    """cmake configure in a private tree and return the compile database (list of entries)."""
    os.makedirs(WORK, exist_ok=True)
    cfg = os.path.join(WORK, 'cfg')
    stamp = os.path.join(WORK, 'cfg.stamp')
    want = _cmake_inputs_hash() + ':' + REPO
    dbfile = os.path.join(WORK, 'compdb.json')
    have = open(stamp).read() if os.path.exists(stamp) else ''
    if have != want or not os.path.exists(dbfile):
        subprocess.run(['rm', '-rf', cfg])
        r = subprocess.run(['cmake', '-S', REPO, '-B', cfg, '-G', 'Ninja', '-DBUILD_TESTS=OFF',
                            '-DBUILD_EXAMPLES=OFF', '-DBUILD_INTERNAL_TESTS=ON'],
                           stdout=subprocess.PIPE, stderr=subprocess.STDOUT, text=True)
        if r.returncode != 0:
            raise AnalysisBroken('cmake configure failed:\n' + r.stdout[-2000:])
        r = subprocess.run(['ninja', '-C', cfg, '-t', 'compdb'], stdout=subprocess.PIPE, text=True)
        if r.returncode != 0:
            raise AnalysisBroken('ninja -t compdb failed')
        with open(dbfile, 'w') as f:
            f.write(r.stdout)
        with open(stamp, 'w') as f:
            f.write(want)
    db = json.load(open(dbfile))
    units = {}
    src = _src_root() + '/'
    for e in db:
        f = e['file']
        if f.startswith(src) and f.endswith('.cpp') and f not in units:
            units[f] = e
    if len(units) < 100:
        raise AnalysisBroken('compile database lists only %d library units' % len(units))
    return units


def clang_args(entry):
    toks = shlex.split(entry['command'])
    out = []
    skip = 0
    for i, t in enumerate(toks[1:]):
        if skip:
            skip -= 1
            continue
        if t in ('-o', '-MT', '-MF'):
            skip = 1
            continue
        if t in ('-c', '-MD', '-MMD'):
            continue
        if t == entry['file']:
            continue
        out.append(t)
    if not any(t.startswith('-std=') for t in out):
        out.append('-std=c++20')
    stubs = os.path.join(WORK, 'stubs')
    extra = ['-resource-dir', RESOURCE_DIR, '-I' + stubs,
             '-DQT_ANNOTATE_ACCESS_SPECIFIER(x)=__attribute__((annotate(#x)))',
             '-DQT_ANNOTATE_FUNCTION(x)=__attribute__((annotate(#x)))',
             '-Wno-everything', '-ferror-limit=0']
    return extra + out


def _make_stubs(unit_files):
    """Empty stand-ins for moc output included by sources (moc output is irrelevant to every rule)."""
    import re
    stubs = os.path.join(WORK, 'stubs')
    os.makedirs(stubs, exist_ok=True)
    pat = re.compile(r'#\s*include\s+"((?:moc_[^"]+\.cpp)|(?:[^"]+\.moc))"')
    for f in unit_files:
        try:
            txt = open(f, errors='replace').read()
        except OSError:
            continue
        for m in pat.finditer(txt):
            p = os.path.join(stubs, m.group(1))
            if not os.path.exists(p):
                open(p, 'w').close()


_hdr_hash_cache = None


def headers_hash():
    global _hdr_hash_cache
    if _hdr_hash_cache is None:
        parts = []
        for f in _list(_src_root(), ('.h',)):
            parts.append(f)
            parts.append(_file_sha(f))
        _hdr_hash_cache = _sha(*parts)
    return _hdr_hash_cache


def extract(unit_files, units=None):
    """Run qxv over the given units (absolute paths); returns {unit: facts-json-path}."""
    if not os.path.exists(QXV):
        raise AnalysisBroken('extractor not built: run MANIFEST.setup_cmd (make -C /verif)')
    if units is None:
        units = configure()
    facts_dir = os.path.join(WORK, 'facts')
    os.makedirs(facts_dir, exist_ok=True)
    _make_stubs(unit_files)
    qxv_sha = _file_sha(QXV)
    hh = headers_hash()
    jobs = []
    result = {}
    for u in unit_files:
        if u not in units:
            raise AnalysisBroken('unit not in the compile database (anchor gone): ' + u)
        if not os.path.exists(u):
            raise AnalysisBroken('unit missing: ' + u)
        args = clang_args(units[u])
        key = _sha(u, _file_sha(u), hh, qxv_sha, ' '.join(args))[:24]
        name = os.path.relpath(u, _src_root()).replace('/', '__')
        out = os.path.join(facts_dir, name + '.' + key + '.json')
        result[u] = out
        if not os.path.exists(out):
            jobs.append((u, args, out, name))

    def run(job):
        u, args, out, name = job
        # drop stale fact files of the same unit
        for old in os.listdir(facts_dir):
            if old.startswith(name + '.') and os.path.join(facts_dir, old) != out:
                try:
                    os.unlink(os.path.join(facts_dir, old))
                except OSError:
                    pass
        tmp = out + '.tmp%d' % os.getpid()
        r = subprocess.run([QXV, '--out', tmp, '--root', _src_root(), '--'] + args + [u],
                           stdout=subprocess.PIPE, stderr=subprocess.PIPE, text=True)
        if not os.path.exists(tmp):
            return (u, 'qxv produced no output: ' + r.stderr[-1500:])
        os.replace(tmp, out)
        return (u, None)

    if jobs:
        with ThreadPoolExecutor(max_workers=JOBS) as ex:
            for u, err in ex.map(run, jobs):
                if err:
                    raise AnalysisBroken('extraction failed for %s: %s' % (u, err))
    return result


def all_units():
    return sorted(configure().keys())


def unit(path):
    """'base/QXmppIq.cpp' -> absolute path"""
    return os.path.join(_src_root(), path)


def extract_control(path, like_unit='base/QXmppUtils.cpp', extra_root=None):
    """facts for a positive-control translation unit under /verif/controls, compiled with the flags of a real unit"""
    units = configure()
    e = units.get(unit(like_unit))
    if not e:
        raise AnalysisBroken('control: unit %s not in compile database' % like_unit)
    args = clang_args(e)
    out_dir = os.path.join(WORK, 'facts')
    os.makedirs(out_dir, exist_ok=True)
    key = _sha(path, _file_sha(path), _file_sha(QXV), ' '.join(args), headers_hash(), extra_root or '')[:24]
    out = os.path.join(out_dir, 'control__' + os.path.basename(path) + '.' + key + '.json')
    if not os.path.exists(out):
        r = subprocess.run([QXV, '--out', out, '--root', os.path.dirname(path)] + (['--extra-root', extra_root] if extra_root else []) + ['--'] + args + [path],
                           stdout=subprocess.PIPE, stderr=subprocess.PIPE, text=True)
        if not os.path.exists(out):
            raise AnalysisBroken('control %s failed to extract: %s' % (path, r.stderr[-800:]))
    return {path: out}
