"""Codec facts: which element / attribute names a class writes and which it reads.

Names are collected from resolved calls of QXmlStreamWriter / QDom* APIs and the repository's
wrappers, over the same-class closure (own methods, base-class methods, file-static helpers and
nested lambdas), never from text."""
from collections import defaultdict

WRITER_METHODS = {'toXml', 'toXmlElementFromChild', 'serializeExtensions', 'extensionsToXml', 'toXmlContent',
                  'serializeQuery', 'serializeItems', 'serializeNonza', 'serializePayload', 'serialize'}
READER_METHODS = {'parse', 'parseElementFromChild', 'parseExtension', 'parseExtensions', 'fromDom', 'parseItems',
                  'parseQuery', 'parsePayload', 'parseNonza', 'fromXml', 'fromElement'}

# (callee qname, kind, index of name argument, index of value argument or None, index of ns argument or None)
W_API = {
    'QXmlStreamWriter::writeStartElement': ('elem', -1, None),
    'QXmlStreamWriter::writeEmptyElement': ('elem', -1, None),
    'QXmlStreamWriter::writeTextElement': ('elem', -2, -1),
    'QXmlStreamWriter::writeAttribute': ('attr', -2, -1),
    'QXmpp::Private::writeOptionalXmlAttribute': ('attr', 1, 2),
    'QXmpp::Private::writeXmlTextElement': ('elem', 1, -1),
    'QXmpp::Private::writeOptionalXmlTextElement': ('elem', 1, 2),
    'QXmpp::Private::writeEmptyElement': ('elem', 1, None),
    'QXmppUtils::helperToXmlAddAttribute': ('attr', 1, 2),
    'QXmppUtils::helperToXmlAddTextElement': ('elem', 1, 2),
    'helperToXmlAddAttribute': ('attr', 1, 2),
    'helperToXmlAddTextElement': ('elem', 1, 2),
}
R_API = {
    'QDomElement::attribute': ('attr', 0),
    'QDomElement::hasAttribute': ('attr', 0),
    'QDomElement::attributeNode': ('attr', 0),
    'QDomNode::firstChildElement': ('elem', 0),
    'QDomNode::nextSiblingElement': ('elem', 0),
    'QDomNode::lastChildElement': ('elem', 0),
    'QDomNode::previousSiblingElement': ('elem', 0),
    'QDomElement::elementsByTagName': ('elem', 0),
    'QDomNode::namedItem': ('elem', 0),
    'QXmpp::Private::firstChildElement': ('elem', 1),
    'QXmpp::Private::nextSiblingElement': ('elem', 1),
    'QXmpp::Private::iterChildElements': ('elem', 1),
    'QXmpp::Private::isIqType': ('elem', 1),
    'QXmpp::Private::checkElement': ('elem', 1),
    'checkElement': ('elem', 1),
    'QXmlStreamAttributes::value': ('attr', -1),
    'QXmlStreamAttributes::hasAttribute': ('attr', -1),
}


def names_of(fn, nid, depth=0):
    """possible compile-time names of a name argument: set of ('lit', str) / ('table', qname) / ('fn', qname) / ('dyn', text)"""
    if nid is None or depth > 6:
        return {('dyn', '?')}
    nid = fn.resolve(nid)
    n = fn.nodes[nid]
    k = n['k']
    if k == 'str':
        return {('lit', n['v'])}
    if k == 'cond':
        return names_of(fn, n['a'], depth + 1) | names_of(fn, n['b'], depth + 1)
    if k == 'defarg':
        return {('lit', '')}
    if k == 'construct' and not n.get('args'):
        return {('lit', '')}
    if k == 'initlist' and not n.get('elems'):
        return {('lit', '')}
    if k == 'call':
        cn = fn.cname(n)
        s = fn.sym(n)
        # TABLE.at(x) / TABLE[x]
        if s and s['name'] in ('at', 'operator[]', 'value') and n.get('obj') is not None or (n.get('op') == '[]' and n.get('opargs')):
            o = n.get('obj') if n.get('obj') is not None else n['opargs'][0]
            on = fn.nodes[fn.skip(o)]
            if on['k'] == 'var' and on.get('vk') in ('global', 'static'):
                return {('table', on.get('qname', on['name']))}
        if n.get('args') is not None and cn and not cn.startswith(('QString::', 'QStringView::', 'QByteArray::')):
            return {('fn', cn)}
    if k == 'index':
        on = fn.nodes[fn.skip(n['base'])]
        if on['k'] == 'var':
            return {('table', on.get('qname', on['name']))}
    if k == 'var' and n.get('vk') in ('global', 'static'):
        return {('const', n.get('qname', n['name']))}
    if k == 'var' and n.get('vk') == 'local' and depth < 4:
        # a local that is only ever assigned (QString tag; if (...) tag = "a"; else tag = "b";): the names it was assigned
        from .effects import classify_use
        ds = fn.all_defs(n.get('decl'))
        other_writes = False
        for j, m in enumerate(fn.nodes):
            if m['k'] == 'var' and m.get('decl') == n.get('decl'):
                kind, how = classify_use(fn, j)
                if kind in ('write', 'addr') and not how.startswith(('assign =', 'operator=', 'decl')) and how.split(' ')[0] not in ('operator=', '='):
                    other_writes = True
        if ds and not other_writes:
            out = set()
            for d in ds:
                out |= names_of(fn, d, depth + 1)
            return out
    return {('dyn', fn.fmt(nid)[:60])}


def is_literal_value(fn, nid):
    """the written value is a compile-time constant (decoration such as xml:lang="en"), not a field"""
    if nid is None:
        return False
    n = fn.nodes[fn.resolve(nid)]
    if n['k'] in ('str', 'int', 'bool', 'char'):
        return True
    if n['k'] == 'var' and n.get('vk') == 'global' and n.get('name', '').startswith('ns_'):
        return True
    if n['k'] == 'call' and fn.cname(n) in ('QXmpp::Private::toString65', 'QStringView::toString') and n.get('args'):
        return is_literal_value(fn, n['args'][0])
    return False


class Collected:
    def __init__(self):
        self.items = []        # (kind, name tuple, fn, nid, extra)

    def add(self, kind, name, fn, nid, **extra):
        self.items.append((kind, name, fn, nid, extra))


def collect_writes(fn, out):
    for i, n in fn.calls():
        cn = fn.cname(n)
        spec = W_API.get(cn)
        if not spec:
            continue
        kind, ni, vi = spec
        args = n.get('args', [])
        if not args:
            continue
        # QXmlStreamWriter overloads with (namespaceUri, name[, value]) put the name later: negative indices handle both
        try:
            name_arg = args[ni]
        except IndexError:
            continue
        if cn == 'QXmpp::Private::writeXmlTextElement' and len(args) == 4:
            vi = 3
        val = None
        if vi is not None:
            try:
                val = args[vi]
            except IndexError:
                val = None
        for nm in names_of(fn, name_arg):
            out.add(kind, nm, fn, i, value=val, const_value=is_literal_value(fn, val) if val is not None else False,
                    empty=(cn.endswith('writeEmptyElement')))


def collect_reads(fn, out):
    for i, n in fn.calls():
        cn = fn.cname(n)
        spec = R_API.get(cn)
        if spec:
            kind, ni = spec
            args = n.get('args', [])
            try:
                name_arg = args[ni]
            except IndexError:
                continue
            if fn.nodes[name_arg]['k'] == 'defarg':
                out.add(kind, ('any', ''), fn, i)
                continue
            for nm in names_of(fn, name_arg):
                if nm == ('lit', '') and kind == 'elem':
                    out.add(kind, ('any', ''), fn, i)
                else:
                    out.add(kind, nm, fn, i)
            continue
        if cn == 'QXmpp::Private::enumFromString' and n.get('args'):
            t = fn.nodes[fn.skip(n['args'][0])]
            src = fn.fmt(n['args'][1]) if len(n['args']) > 1 else ''
            if t['k'] == 'var':
                kind = 'elem' if 'tagName' in src or 'nodeName' in src or 'name()' in src else 'value'
                out.add(kind, ('table', t.get('qname', t['name'])), fn, i)
            continue
    # tagName() == "x" comparisons and switch-like chains; QXmlStreamReader name() ==
    for i, n in enumerate(fn.nodes):
        bo = fn.binop(i)
        if not bo or bo[0] not in ('==', '!='):
            continue
        for a, b in ((bo[1], bo[2]), (bo[2], bo[1])):
            an = fn.nodes[fn.resolve(a)]
            if an['k'] == 'call' and fn.cname(an) in ('QDomElement::tagName', 'QDomNode::nodeName', 'QDomNode::localName',
                                                      'QXmlStreamReader::name', 'QXmppElement::tagName'):
                for nm in names_of(fn, b):
                    out.add('elem', nm, fn, i)
    # contains(el.tagName()) on constant lists / tables
    for i, n in fn.calls():
        s = fn.sym(n)
        if s and s['name'] in ('contains', 'indexOf', 'find') and n.get('args'):
            a0 = fn.fmt(n['args'][-1] if s['name'] != 'find' else n['args'][-1])
            if 'tagName' in a0 and n.get('obj') is not None:
                on = fn.nodes[fn.skip(n['obj'])]
                if on['k'] == 'var':
                    out.add('elem', ('table', on.get('qname', on['name'])), fn, i)


def record_chain(prog, rec):
    """rec and its base records (qualified names) defined in the program"""
    out = []
    seen = set()
    st = [rec]
    while st:
        r = st.pop(0)
        if r in seen:
            continue
        seen.add(r)
        out.append(r)
        rd = prog.records.get(r)
        if rd:
            for b in rd.get('bases', []):
                st.append(b.split('<')[0])
    return out


def closure(prog, roots, rec, stop_methods):
    """functions belonging to rec's own codec reachable from roots"""
    chain = set(record_chain(prog, rec))
    seen = {}
    st = list(roots)
    while st:
        f = st.pop()
        if f.id in seen:
            continue
        seen[f.id] = f
        for l in prog.lambdas_of.get(f.id, []):
            st.append(l)
        for i, n in f.calls():
            for g in prog.callee_fns(f, n):
                if g.id in seen:
                    continue
                own = g.record in chain
                helper = g.record is None and g.file == f.file
                if not (own or helper):
                    continue
                st.append(g)
    return list(seen.values())


def codec_classes(prog):
    """{record: {'writers': [Fn], 'readers': [Fn]}} for records having both"""
    byrec = defaultdict(lambda: {'writers': [], 'readers': []})
    for f in prog.fns.values():
        if f.is_lambda or not f.record:
            continue
        if f.name in WRITER_METHODS:
            byrec[f.record]['writers'].append(f)
        elif f.name in READER_METHODS:
            byrec[f.record]['readers'].append(f)
    return {r: v for r, v in byrec.items() if v['writers'] and v['readers']}


# ------------------------------------------------------------------ element context of attributes (level 2)
ELEM_SRC = {'QXmpp::Private::firstChildElement': 1, 'QXmpp::Private::nextSiblingElement': 1, 'QDomNode::firstChildElement': 0,
            'QDomNode::nextSiblingElement': 0, 'QDomNode::lastChildElement': 0}


def _strip(name):
    return name.split(':')[-1]


def writer_context(f, i, W, writer_method_ids):
    """names of the element an attribute write belongs to: nearest dominating start-element write in the same
    function ('*' when it is opened by a caller); the class root is also called 'ROOT'"""
    starts = [j for kk, nn, ff, j, ee in W.items if ff.id == f.id and kk == 'elem' and j != i and f.node_dominates(j, i)]
    if not starts:
        return {'*'}
    near = starts[0]
    for j in starts[1:]:
        if f.node_dominates(near, j):
            near = j
    out = set()
    for kk, nn, ff, j, ee in W.items:
        if ff.id == f.id and j == near:
            out.add(_strip(nn[1]) if nn[0] == 'lit' else '*')
    if len(set(starts)) == 1 and f.id in writer_method_ids:
        out.add('ROOT')
    return out or {'*'}


def reader_context(f, x, site, root_method_ids, iq_records=()):
    """tag names of the element expression x an attribute is read from ('*' unknown, 'ROOT' the parsed element itself)"""
    out = set()
    for m in f.resolve_all(x):
        n = f.nodes[m]
        if n['k'] == 'var' and n.get('vk') == 'param' and n.get('pidx') == 0 and not n.get('outer') and f.id in root_method_ids:
            out.add('ROOT')
        elif n['k'] == 'var' and n.get('vk') == 'param' and n.get('pidx') == 0 and not n.get('outer') \
                and f.name == 'parseElementFromChild' and f.record in iq_records and f.raw.get('virtual'):
            out.add('iq')       # QXmppIq::parse hands the <iq/> element itself to parseElementFromChild
        elif n['k'] == 'call' and f.cname(n) in ELEM_SRC:
            ai = ELEM_SRC[f.cname(n)]
            args = n.get('args', [])
            if ai < len(args) and f.nodes[args[ai]]['k'] != 'defarg':
                for nm in names_of(f, args[ai]):
                    out.add(_strip(nm[1]) if nm[0] == 'lit' and nm[1] else '*')
            else:
                out.add('?')
        elif n['k'] == 'var' and f.defs().get(n.get('decl'), {}).get('rangevar'):
            found = False
            for b in f.blocks.values():
                t = b.get('term')
                if t and t['k'] == 'rangefor' and t.get('loopvar') == n['decl'] and 'range' in t:
                    r = f.nodes[f.resolve(t['range'])]
                    if r['k'] == 'call' and f.cname(r) == 'QXmpp::Private::iterChildElements':
                        args = r.get('args', [])
                        if len(args) > 1 and f.nodes[args[1]]['k'] != 'defarg':
                            for nm in names_of(f, args[1]):
                                out.add(_strip(nm[1]) if nm[0] == 'lit' and nm[1] else '*')
                            found = True
            if not found:
                out.add('?')
        else:
            out.add('?')
    if '?' in out:
        out.discard('?')
        txt = f.fmt(x)
        tags = set()
        for c, pol in f.atomic_assertions_at(site):
            bo = f.binop(c)
            if bo and isinstance(pol, bool) and ((bo[0] == '==' and pol) or (bo[0] == '!=' and not pol)):
                for a, b in ((bo[1], bo[2]), (bo[2], bo[1])):
                    an = f.nodes[f.resolve(a)]
                    if an['k'] == 'call' and f.cname(an) == 'QDomElement::tagName' and an.get('obj') is not None and f.fmt(an['obj']) == txt:
                        v = f.strval(b)
                        if v:
                            tags.add(v)
        out |= tags or {'*'}
    return out
