"""Finite-state path exploration over one function's CFG (ESP-style typestate with predicate
refinement).  State = (block, user state); user state must be hashable.  Exhaustive worklist with a
visited set, so loops terminate; every reached (block,state) keeps one parent pointer so a witness
path can be printed."""
from collections import deque

from .build import AnalysisBroken


DEFAULT_PROG = [None]     # set by the check driver: the Program of the current run
NONE = ('none',)          # value of an empty std::optional
NULLV = ('null',)         # nullptr


class Evaluator:
    """Three-valued constant folding of branch conditions under bindings.

    bindings: {callee qualified name: value}  value = bool / ('enum', name) / int
    locals are followed through their single definition."""

    def __init__(self, fn, bindings=None, var_values=None, custom=None, enum_values=None, prog=None, _stack=()):
        self.fn = fn
        self.b = bindings or {}
        self.vars = var_values or {}
        self.custom = custom
        self.enum_values = enum_values or {}
        # whole-program view: lets the evaluator look into small boolean helper predicates of the repository (a condition that was
        # extracted into "static bool isAllowedBeforeTls(const QDomElement &)" is evaluated like the inline condition)
        self.prog = prog if prog is not None else DEFAULT_PROG[0]
        self._stack = _stack

    def _ev_helper(self, n, state, depth):
        """value of a call to a small bool-returning function (or local lambda) defined in the analysed sources, or None"""
        fn = self.fn
        if self.prog is None or len(self._stack) >= 3:
            return None
        if (n.get('t') or '').replace('const ', '') not in ('bool', 'std::optional<bool>'):
            return None
        args = list(n.get('args', []))
        if n.get('op') == '()' and n.get('opargs'):
            # invocation of a lambda held in a local variable
            target = fn.nodes[fn.resolve(n['opargs'][0])]
            if target['k'] != 'lambda':
                return None
            callees = self.prog.lambda_fns(fn, target)
            args = list(n['opargs'][1:])
        elif n.get('op'):
            # overloaded operator written as a free function in the repository (e.g. QXmpp::operator&(SceMode, SceMode))
            callees = [g for g in self.prog.callee_fns(fn, n) if len(g.params) == len(n.get('opargs', []))]
            args = list(n.get('opargs', []))
        else:
            callees = self.prog.callee_fns(fn, n)
        if len(callees) != 1:
            return None
        g = callees[0]
        if g.entry is None or g.id == fn.id or g.id in self._stack or len(g.nodes) > 400 or g.raw.get('dependent'):
            return None
        argvals = {}
        alias = {}
        for k, a in enumerate(args):
            if k < len(g.params) and fn.nodes[a]['k'] != 'defarg':
                argvals[k] = self.ev(a, state, depth + 1)
                alias[k] = fn.fmt(a, inline=True)
        outer_custom = self.custom

        def custom(f, nid, st):
            m = f.nodes[nid]
            if f.id == g.id and m['k'] == 'var' and m.get('vk') == 'param' and m.get('pidx') in argvals and argvals[m['pidx']] is not None:
                return (argvals[m['pidx']],)
            if outer_custom:
                return outer_custom(f, nid, st)
            return None
        sub = Evaluator(g, self.b, custom=custom, enum_values=self.enum_values, prog=self.prog, _stack=self._stack + (fn.id,))
        vals = set()

        def tr(f, nid, st):
            m = f.nodes[nid]
            if m['k'] == 'ret' and 'e' in m:
                vals.add(sub.ev(m['e'], None))
            return None
        saved = getattr(g, 'param_alias', None)
        g.param_alias = alias          # the callee's parameters print as the caller's argument expressions, so text-based abstractions carry over
        try:
            explore(g, (), tr, lambda f, c, st: sub.ev(c, None), max_states=5000)
        except AnalysisBroken:
            return None
        finally:
            g.param_alias = saved
        if len(vals) == 1:
            v = vals.pop()
            return v if isinstance(v, bool) or v == NONE else None
        return None

    def _num(self, v):
        if isinstance(v, bool):
            return None
        if isinstance(v, int):
            return v
        if isinstance(v, tuple) and len(v) == 2 and v[0] == 'enum':
            return self.enum_values.get(v[1])
        return None

    def ev(self, nid, state=None, depth=0):
        fn = self.fn
        if depth > 40 or nid is None:
            return None
        nid = fn.skip(nid)
        n = fn.nodes[nid]
        k = n['k']
        if self.custom:
            r = self.custom(fn, nid, state)
            if r is not None:
                return r[0]
        if k == 'bool':
            return bool(n['v'])
        if k in ('int', 'char'):
            return n['v']
        if k == 'enum':
            if n['name'] not in self.enum_values and 'v' in n:
                self.enum_values[n['name']] = n['v']
            return ('enum', n['name'])
        if k in ('cast', 'icast'):
            return self.ev(n['e'], state, depth + 1)
        if k == 'var' and n.get('name') in ('nullopt', 'std::nullopt') and n.get('vk') == 'global':
            return NONE
        if k == 'null':
            return NULLV
        if k == 'construct' and (n.get('cls') or '').startswith('std::optional'):
            real = [a for a in n.get('args', []) if fn.nodes[a]['k'] != 'defarg']
            if not real:
                return NONE
            return self.ev(real[0], state, depth + 1)
        if k == 'call' and fn.cname(n).startswith('std::optional') and fn.cname(n).endswith(('::has_value', '::operator bool')) and n.get('obj') is not None:
            v = self.ev(n['obj'], state, depth + 1)
            return None if v is None else (v != NONE)
        if k == 'call' and fn.cname(n).startswith('std::optional') and fn.cname(n).endswith(('::value', '::operator*')) and (n.get('obj') is not None or n.get('opargs')):
            v = self.ev(n['obj'] if n.get('obj') is not None else n['opargs'][0], state, depth + 1)
            return None if v is None or v == NONE else v
        if k == 'un' and n['op'] == '!':
            v = self.ev(n['e'], state, depth + 1)
            return None if v is None else (not v)
        if k == 'call' and n.get('op') == '!' and len(n.get('opargs', [])) == 1:
            v = self.ev(n['opargs'][0], state, depth + 1)
            return None if v is None or not isinstance(v, bool) else (not v)
        bo = fn.binop(nid)
        if bo:
            op, l, r = bo
            if op in ('&&', '||'):
                a = self.ev(l, state, depth + 1)
                b = self.ev(r, state, depth + 1)
                if op == '&&':
                    if a is False or b is False:
                        return False
                    if a is True and b is True:
                        return True
                    return None
                if a is True or b is True:
                    return True
                if a is False and b is False:
                    return False
                return None
            if op in ('==', '!='):
                a = self.ev(l, state, depth + 1)
                b = self.ev(r, state, depth + 1)
                if a is None or b is None:
                    return None
                # pointer compared with nullptr, the pointer being known only by its truth value
                if b == NULLV and isinstance(a, bool):
                    return (not a) if op == '==' else a
                if a == NULLV and isinstance(b, bool):
                    return (not b) if op == '==' else b
                na, nb = self._num(a), self._num(b)
                if na is not None and nb is not None:
                    return (na == nb) if op == '==' else (na != nb)
                return (a == b) if op == '==' else (a != b)
            if op in ('<', '<=', '>', '>='):
                a = self._num(self.ev(l, state, depth + 1))
                b = self._num(self.ev(r, state, depth + 1))
                if a is None or b is None:
                    return None
                return {'<': a < b, '<=': a <= b, '>': a > b, '>=': a >= b}[op]
            if op != '()' and not (k == 'call' and n.get('op') and (n.get('t') or '') == 'bool' and op not in ('&&', '||', '==', '!=', '<', '<=', '>', '>=')):
                return None
        if k in ('call', 'construct'):
            cn = fn.cname(n)
            if cn in self.b:
                return self.b[cn]
            if k == 'call' and (not n.get('op') or n.get('op') == '()' or ((n.get('t') or '') == 'bool' and len(n.get('opargs', [])) == 2)):
                return self._ev_helper(n, state, depth)
            return None
        if k == 'var':
            if n['decl'] in self.vars:
                return self.vars[n['decl']]
            if isinstance(state, frozenset):
                # store of re-assigned boolean locals carried by sink_reachability(..., track=evaluator)
                for item in state:
                    if isinstance(item, tuple) and len(item) == 2 and item[0] == ('var', n['decl']):
                        return item[1]
            if n.get('vk') == 'local' and not n.get('outer'):
                d = fn.single_def(n['decl'])
                if d is not None:
                    return self.ev(d, state, depth + 1)
            return None
        if k == 'mem':
            key = 'field:' + n['f']
            if key in self.b:
                return self.b[key]
        return None


def _logic(fn, nid):
    """('!', x) / ('&&', l, r) / ('||', l, r) / ('leaf', nid) - the builtin logical structure of a condition"""
    j = fn.skip(nid)
    n = fn.nodes[j]
    if n['k'] == 'un' and n.get('op') == '!':
        return ('!', n['e'])
    if n['k'] == 'bin' and n.get('op') in ('&&', '||'):
        return (n['op'], n['l'], n['r'])
    return ('leaf', j)


def _flag_leaves(fn, nid, candidates, out=None, depth=0, nids=None):
    """decl ids of the candidate boolean locals that are leaves of the logical structure of the condition"""
    out = out if out is not None else []
    if depth > 8:
        return out
    lg = _logic(fn, nid)
    if lg[0] == 'leaf':
        n = fn.nodes[lg[1]]
        if n['k'] == 'var' and candidates(n):
            out.append(n['decl'])
            if nids is not None:
                nids[n['decl']] = lg[1]
    else:
        for x in lg[1:]:
            _flag_leaves(fn, x, candidates, out, depth + 1, nids)
    return out


def _cond3(fn, nid, flagvals, leafval, depth=0):
    """three-valued value of a condition: named flags from flagvals, every other leaf from leafval(nid)"""
    if depth > 8:
        return None
    lg = _logic(fn, nid)
    if lg[0] == 'leaf':
        n = fn.nodes[lg[1]]
        if n['k'] == 'var' and n.get('decl') in flagvals:
            return flagvals[n['decl']]
        v = leafval(lg[1])
        return v if isinstance(v, bool) else None
    if lg[0] == '!':
        v = _cond3(fn, lg[1], flagvals, leafval, depth + 1)
        return None if v is None else (not v)
    l = _cond3(fn, lg[1], flagvals, leafval, depth + 1)
    r = _cond3(fn, lg[2], flagvals, leafval, depth + 1)
    if lg[0] == '&&':
        if l is False or r is False:
            return False
        return True if (l is True and r is True) else None
    if l is True or r is True:
        return True
    return False if (l is False and r is False) else None


def _flag_step(fn, cond, flagvars, fl, leafval):
    """(value of the condition or None, {polarity: flag store after taking that edge}) for a two-way branch"""
    known = dict(fl)
    nids = {}
    leaves = set(_flag_leaves(fn, cond, lambda n: n.get('decl') in flagvars, nids=nids))
    if not leaves:
        return None, {}
    v = _cond3(fn, cond, known, leafval)
    if isinstance(v, bool):
        return v, {}
    # a flag whose initialiser the rule's evaluator folds is not unknown
    unknown = [d for d in leaves if d not in known and not isinstance(leafval(nids[d]), bool)]
    upd = {}
    if len(unknown) == 1:
        d = unknown[0]
        vt = _cond3(fn, cond, known | {d: True}, leafval)
        vf = _cond3(fn, cond, known | {d: False}, leafval)
        if isinstance(vt, bool) and isinstance(vf, bool) and vt != vf:
            # the flag alone decides this branch: each edge fixes its value for the rest of the path
            upd = {vt: fl | {(d, True)}, vf: fl | {(d, False)}}
        elif isinstance(vt, bool) and vf is None:
            # e.g. `flag || other()`: the false edge implies !flag (when vt is True), the true edge says nothing
            upd = {(not vt): fl | {(d, False)}}
        elif isinstance(vf, bool) and vt is None:
            upd = {(not vf): fl | {(d, True)}}
    return None, upd


def named_flags(fn):
    """decl ids of the boolean locals that are initialised once, never re-assigned, and tested (inside the logical structure of the condition)
    by two or more branches"""
    cached = getattr(fn, '_named_flags', None)
    if cached is not None:
        return cached

    def candidate(n):
        return n.get('vk') == 'local' and not n.get('outer') and fn.single_def(n['decl']) is not None \
            and (fn.defs()[n['decl']].get('t') or '').replace('const ', '') == 'bool'
    count = {}
    for b in fn.blocks.values():
        t = b.get('term')
        if not (t and 'cond' in t) or t['k'] == 'switch' or len(b['succs']) != 2:
            continue
        for d in set(_flag_leaves(fn, t['cond'], candidate)):
            count[d] = count.get(d, 0) + 1
    out = frozenset(d for d, c in count.items() if c >= 2)
    try:
        fn._named_flags = out
    except Exception:
        pass
    return out


def explore(fn, init, transfer=None, evalcond=None, refine=None, max_states=200000, edge_filter=None, record_visits=None):
    """Exhaustive exploration.

    transfer(fn, nid, state) -> new state (or the same)            applied to each block element
    evalcond(fn, cond_nid, state) -> True / False / value / None   None = take every edge
    refine(fn, cond_nid, polarity, state) -> state or None          polarity: bool or ('case', label); None = infeasible
    Returns (exit_states, info) where exit_states = {state: witness} with witness a list of
    (block, edge index) and info = {'states': n, 'edges': n}."""
    if fn.entry is None:
        raise AnalysisBroken('no CFG for %s' % fn.display())
    # named flags: a once-initialised boolean local that two or more branches test has one value on a whole path; the value chosen at its first
    # unfolded test is carried (beside the caller's state) to the later tests, so the infeasible "true here, false there" paths are not walked
    flagvars = named_flags(fn)
    start = (fn.entry, init, frozenset())
    parent = {start: None}
    q = deque([start])
    exits = {}
    nedges = 0
    while q:
        cur = q.popleft()
        bid, st, fl = cur
        blk = fn.blocks[bid]
        if flagvars and fl:
            for e in blk['elems']:
                n_ = fn.nodes[e]
                if n_['k'] == 'decl' and any(d_['var'] in flagvars for d_ in n_['decls']):
                    # the declaration is executed again (loop body): a new value
                    fl = frozenset(x for x in fl if not any(d_['var'] == x[0] for d_ in n_['decls']))
        if transfer:
            for e in blk['elems']:
                ns = transfer(fn, e, st)
                if ns is not None:
                    st = ns
        if bid == fn.exit or not [s for s in blk['succs'] if s is not None]:
            if st not in exits:
                exits[st] = cur
            continue
        t = blk.get('term')
        succs = blk['succs']
        choices = []
        flag_upd = {}
        if t and 'cond' in t and len(succs) >= 2:
            k = t['k']
            v = evalcond(fn, t['cond'], st) if evalcond else None
            if k == 'switch':
                cases = t.get('cases', [])
                for i, s in enumerate(succs):
                    if s is None:
                        continue
                    lab = cases[i] if i < len(cases) else None
                    if v is not None and isinstance(lab, dict) and lab.get('k') == 'case':
                        lv = ('enum', lab['name']) if 'name' in lab else lab.get('v')
                        if v != lv and not (isinstance(v, tuple) and 'name' not in lab):
                            continue
                    elif v is not None and (lab == 'nomatch' or (isinstance(lab, dict) and lab.get('k') == 'default')):
                        # default taken only if no explicit case matches
                        explicit = [c for c in cases if isinstance(c, dict) and c.get('k') == 'case']
                        if any((('enum', c['name']) if 'name' in c else c.get('v')) == v for c in explicit):
                            continue
                    choices.append((i, s, ('case', lab)))
            elif len(succs) == 2:
                if flagvars and not isinstance(v, bool):
                    fv, flag_upd = _flag_step(fn, t['cond'], flagvars, fl, lambda leaf, st=st: evalcond(fn, leaf, st) if evalcond else None)
                    if isinstance(fv, bool):
                        v = fv
                for i, s in enumerate(succs):
                    if s is None:
                        continue
                    pol = (i == 0)
                    if isinstance(v, bool) and v != pol:
                        continue
                    choices.append((i, s, pol))
            else:
                choices = [(i, s, None) for i, s in enumerate(succs) if s is not None]
        else:
            choices = [(i, s, None) for i, s in enumerate(succs) if s is not None]
        for i, s, pol in choices:
            if edge_filter and not edge_filter(fn, bid, i, st):
                continue
            st2 = st
            if refine and pol is not None and t and 'cond' in t:
                st2 = refine(fn, t['cond'], pol, st)
                if st2 is None:
                    continue
            fl2 = flag_upd.get(pol, fl) if isinstance(pol, bool) else fl
            nxt = (s, st2, fl2)
            nedges += 1
            if nxt not in parent:
                parent[nxt] = (cur, i)
                if len(parent) > max_states:
                    raise AnalysisBroken('state space bound exceeded in %s' % fn.display())
                q.append(nxt)
    if record_visits is not None:
        # block -> witness path of the first visit (any state)
        for node in parent:
            if node[0] in record_visits:
                continue
            path = []
            cur = node
            while cur is not None:
                pp = parent.get(cur)
                if pp is None:
                    path.append((cur[0], None))
                    break
                path.append((cur[0], pp[1]))
                cur = pp[0]
            path.reverse()
            record_visits[node[0]] = path
    witnesses = {}
    for st, node in exits.items():
        path = []
        cur = node
        while cur is not None:
            p = parent.get(cur)
            if p is None:
                path.append((cur[0], None))
                break
            path.append((cur[0], p[1]))
            cur = p[0]
        path.reverse()
        witnesses[st] = path
    return witnesses, {'states': len(parent), 'edges': nedges}


def effect_sequences(prog, fn, event_of, param_values=None, follow=None, depth=0, bindings=None):
    """set of event tuples over all paths of fn.  event_of(f, nid) -> event or None.  Calls to repository functions accepted by follow(g)
    (default: defined in the same file) are inlined up to depth 3, with constant arguments bound to the callee's parameters; a callee whose
    paths disagree contributes the event '?'."""
    pv = param_values or {}

    def custom(f, nid, st):
        n = f.nodes[nid]
        if f.id == fn.id and n['k'] == 'var' and n.get('vk') == 'param' and n.get('pidx') in pv:
            return (pv[n['pidx']],)
        return None
    ev = Evaluator(fn, dict(bindings or {}), custom=custom, prog=prog)

    def transfer(f, nid, st):
        e = event_of(f, nid)
        if e is not None:
            return st + (e,)
        n = f.nodes[nid]
        if n['k'] == 'call' and not n.get('op') and depth < 3:
            for g in prog.callee_fns(f, n):
                if g.entry is None or g.id == f.id or not (follow(g) if follow else g.file == f.file):
                    continue
                sub_pv = {}
                for k, a in enumerate(n.get('args', [])):
                    cv = f.const_value(a)
                    if cv and cv[0] in ('bool', 'int'):
                        sub_pv[k] = cv[1]
                    elif cv and cv[0] == 'enum':
                        sub_pv[k] = cv
                sub = effect_sequences(prog, g, event_of, sub_pv, follow, depth + 1, bindings)
                if len(sub) == 1:
                    only = next(iter(sub))
                    return st + only if only else None
                return st + ('?',)
        return None
    exits, _ = explore(fn, (), transfer, lambda f, c, st: ev.ev(c, st), max_states=20000)
    return set(exits)


def describe_path(fn, path, limit=14):
    """human-readable witness: the branch decisions along the path"""
    out = []
    prev = None
    for bid, edge in path:
        if prev is not None:
            pb = fn.blocks[prev]
            t = pb.get('term')
            if t and 'cond' in t and len([s for s in pb['succs'] if s is not None]) > 1 and edge is not None:
                if t['k'] == 'switch':
                    lab = t.get('cases', [None] * (edge + 1))[edge]
                    ls = lab.get('name', lab.get('v', lab.get('k'))) if isinstance(lab, dict) else lab
                    out.append('%s:%d switch(%s) -> %s' % (fn.relfile, t['ln'], fn.fmt(t['cond'])[:80], ls))
                else:
                    out.append('%s:%d %s is %s' % (fn.relfile, t['ln'], fn.fmt(t['cond'])[:100], 'true' if edge == 0 else 'false'))
        prev = bid
    if len(out) > limit:
        out = out[:limit // 2] + ['...'] + out[-limit // 2:]
    return out


def _switch_choices(fn, t, succs, v):
    """(edge index, successor) pairs a switch can take when its condition folds to v (None = any)"""
    cases = t.get('cases', [])
    out = []
    for i, s in enumerate(succs):
        if s is None:
            continue
        lab = cases[i] if i < len(cases) else None
        if v is not None and isinstance(lab, dict) and lab.get('k') == 'case':
            lv = ('enum', lab['name']) if 'name' in lab else lab.get('v')
            if v != lv and not (isinstance(v, tuple) and 'name' not in lab):
                continue
        elif v is not None and (lab == 'nomatch' or (isinstance(lab, dict) and lab.get('k') == 'default')):
            explicit = [c for c in cases if isinstance(c, dict) and c.get('k') == 'case']
            if any((('enum', c['name']) if 'name' in c else c.get('v')) == v for c in explicit):
                continue
        out.append((i, s))
    return out


def reachable_blocks(fn, evalcond):
    """blocks reachable from the entry when branch conditions are folded by evalcond (stateless)"""
    seen = {fn.entry}
    q = deque([fn.entry])
    while q:
        b = q.popleft()
        blk = fn.blocks[b]
        succs = blk['succs']
        t = blk.get('term')
        nxt = []
        if t and 'cond' in t and len(succs) == 2 and t['k'] != 'switch':
            v = evalcond(fn, t['cond'], None)
            for i, s in enumerate(succs):
                if s is None:
                    continue
                if isinstance(v, bool) and v != (i == 0):
                    continue
                nxt.append(s)
        elif t and 'cond' in t and t['k'] == 'switch':
            nxt = [s for i, s in _switch_choices(fn, t, succs, evalcond(fn, t['cond'], None))]
        else:
            nxt = [s for s in succs if s is not None]
        for s in nxt:
            if s not in seen:
                seen.add(s)
                q.append(s)
    return seen


def path_avoiding(fn, start, goal, avoid, evalcond=None, within=None):
    """a block path start -> goal that passes none of the blocks in `avoid` (branch conditions folded by evalcond, stateless), or None.
    Named flags (see explore) keep the value chosen at their first test along the path."""
    flagvars = named_flags(fn)
    seen, stack = set(), [(start, [start], frozenset())]
    while stack:
        x, path, fl = stack.pop()
        if (x, fl) in seen or x in avoid:
            continue
        seen.add((x, fl))
        blk = fn.blocks[x]
        succs = blk['succs']
        t = blk.get('term')
        if flagvars and fl:
            for e in blk['elems']:
                n_ = fn.nodes[e]
                if n_['k'] == 'decl' and any(d_['var'] in flagvars for d_ in n_['decls']):
                    fl = frozenset(y for y in fl if not any(d_['var'] == y[0] for d_ in n_['decls']))
        if t and 'cond' in t and len(succs) == 2 and t['k'] != 'switch':
            v = evalcond(fn, t['cond'], None) if evalcond else None
            upd = {}
            if flagvars and not isinstance(v, bool):
                fv, upd = _flag_step(fn, t['cond'], flagvars, fl, lambda leaf: evalcond(fn, leaf, None) if evalcond else None)
                if isinstance(fv, bool):
                    v = fv
            nxt = []
            for i, s in enumerate(succs):
                if s is None or (isinstance(v, bool) and v != (i == 0)):
                    continue
                nxt.append((s, upd.get(i == 0, fl)))
        elif evalcond and t and 'cond' in t and t['k'] == 'switch':
            nxt = [(s, fl) for i, s in _switch_choices(fn, t, succs, evalcond(fn, t['cond'], None))]
        else:
            nxt = [(s, fl) for s in succs if s is not None]
        for sx, fl2 in nxt:
            if sx == goal:
                return path
            if within is None or sx in within:
                stack.append((sx, path + [sx], fl2))
    return None


def reach_with_paths(fn, evalcond):
    """{block: witness path [(block, edge index)...]} for blocks reachable under the folded conditions"""
    parent = {fn.entry: None}
    q = deque([fn.entry])
    while q:
        b = q.popleft()
        blk = fn.blocks[b]
        succs = blk['succs']
        t = blk.get('term')
        nxt = []
        if t and 'cond' in t and len(succs) == 2 and t['k'] != 'switch':
            v = evalcond(fn, t['cond'], None)
            for i, s in enumerate(succs):
                if s is None:
                    continue
                if isinstance(v, bool) and v != (i == 0):
                    continue
                nxt.append((i, s))
        elif t and 'cond' in t and t['k'] == 'switch':
            nxt = _switch_choices(fn, t, succs, evalcond(fn, t['cond'], None))
        else:
            nxt = [(i, s) for i, s in enumerate(succs) if s is not None]
        for i, s in nxt:
            if s not in parent:
                parent[s] = (b, i)
                q.append(s)
    out = {}
    for b in parent:
        path = []
        cur = b
        while parent[cur] is not None:
            pb, i = parent[cur]
            path.append((cur, i))
            cur = pb
        path.append((cur, None))
        path.reverse()
        out[b] = path
    return out


def tracked_bools(fn):
    """re-assigned boolean locals (single-assignment ones are inlined by the evaluator anyway)"""
    out = set()
    for decl, d in fn.defs().items():
        if d.get('assigned') and (d.get('tc') or '').startswith('bool') or (d.get('assigned') and d.get('t') in ('bool', 'const bool')):
            out.add(decl)
    return out


def sink_reachability(fn, evalcond, sinks, track=None):
    """sinks: iterable of node ids -> {nid: witness path or None}.
    track: an Evaluator; when given, boolean locals that are assigned more than once are followed path-sensitively (their value is part of the explored state),
    so `bool ok = true; if (x) ok = f(); if (ok && g()) sink;` is decided like the equivalent single condition."""
    sinks = list(sinks)
    tb = tracked_bools(fn) if track is not None else set()
    if tb:
        hit = {}

        def transfer(f, nid, st):
            n = f.nodes[nid]
            upd = None
            if n['k'] == 'decl':
                for d in n['decls']:
                    if d['var'] in tb and d.get('init') is not None:
                        upd = (d['var'], track.ev(d['init'], st))
            elif n['k'] == 'assign' and n['op'] == '=':
                l = f.nodes[f.skip(n['l'])]
                if l['k'] == 'var' and l.get('decl') in tb:
                    upd = (l['decl'], track.ev(n['r'], st))
            if upd is not None:
                st = frozenset(x for x in st if x[0] != ('var', upd[0]))
                if isinstance(upd[1], bool):
                    st = st | {(('var', upd[0]), upd[1])}
                return st
            return None
        parent_of = {}
        # explore() keeps witnesses for exit states only; sinks are looked up through the visited (block, state) set
        exits, info = explore(fn, frozenset(), transfer, evalcond, record_visits=parent_of)
        out = {}
        for nid in sinks:
            pos = fn.pos(nid)
            out[nid] = parent_of.get(pos[0]) if pos else None
        return out
    r = reach_with_paths(fn, evalcond)
    out = {}
    for nid in sinks:
        pos = fn.pos(nid)
        out[nid] = r.get(pos[0]) if pos else None
    return out
